"""C05 — sparse extraction denotes exactly the dense array.

Ties
----
(V) certified validation.  For generated well-typed evaluable DAGs (nvh.genexpr, biased towards the classes that have
    their own `_assparse`, plus FEM-like element loops with element-dependent block sizes) the REAL sparse trees
    `e.simplified.assparse`, `evaluable.as_csr(e)` and the raw `e.assparse` are serialised together with the dense
    expression; the Lean specification evaluator (Model/Expr.lean) evaluates all of them — index parts concretely,
    value parts as polynomials in the real-valued arguments — and the certified checkers `C05.cooClauses` /
    `C05.csrClauses` (sound and complete by Props/C05.lean) decide the property, for all real argument values at once
    (symbolic request) and exactly at the sampled dyadic point (concrete request).
    Independently the real sparse tuple is evaluated with the real compiled code and checked against the real dense
    value by exact recomputation in Python (indices in range, strictly lexicographically increasing, CSR
    structure, scatter == dense): this covers the `evalf`s of ArgSort/UniqueMask/UniqueInverse/Find/CompressIndices.
(M) mechanism correspondence.  `numeric.compress_indices`, `numeric.accumulate`, `evaluable.unique`, the merge of
    `Array.assparse` and `evaluable.as_csr` on generated integer data against the Lean model (Model/C05.lean) and its
    specification functions; `function.as_coo/as_csr` through `function.eval` on small FEM integrals and through the
    consumers `matrix.assemble_csr`, `solver.System` (block jacobian) and `Topology.project`; the block position of
    `Inflate._assparse` (strides into the flattened dofmap) against `blockStrides`/`stridedPos` (theorem inflate_block_position).
(S) structured higher-rank stream (nvh.c05_gen; real extraction + real evaluation + exact recomputation oracle, runs while the
    Lean driver is busy): n-ary products of factors on arbitrary axis subsets in every construction order, block inflation with
    dofmaps of 0..4 axes, element loops of rank 1..4 with several element dependent block lengths, DAGs with these ingredients.
"""
import os, base64, pickle, collections, itertools, json, numpy
from fractions import Fraction
from nutils import evaluable as ev, types
from . import genexpr, ser, shrink, exprcheck as X, c05_gen as G
from .common import Infra

STRUCTURAL = ['InsertAxis', 'Transpose', 'Add', 'Multiply', 'Sum', 'Inflate', 'Diagonalize', 'Ravel', 'Unravel', 'Unravel0', 'Take', 'TakeDiag',
              'LoopSum', 'LoopConcatenate', 'Negative', 'IntToFloat', 'PowerInt']


def pack(e, args):
    return base64.b64encode(pickle.dumps((e, args))).decode()


# ---------------------------------------------------------------------------------------------------------------------
# exact recomputation oracle on evaluated data

def frac(x):
    if isinstance(x, (bool, numpy.bool_)): return Fraction(int(x))
    if isinstance(x, (int, numpy.integer)): return Fraction(int(x))
    return Fraction(float(x))


def lex_lt(a, b):
    return tuple(a) < tuple(b)


def py_check_coo(values, indices, shape, dense, tol=0.):
    """returns None when the COO data denote `dense` exactly (Fractions), else the name of the first failed clause.
    tol > 0: values may differ by tol * scale (only used when the expression contains inexact float operations)."""
    values = numpy.asarray(values); dense = numpy.asarray(dense)
    shape = tuple(int(n) for n in shape)
    if values.ndim != 1 or any(numpy.asarray(i).ndim != 1 or numpy.asarray(i).dtype.kind not in 'iu' for i in indices):
        return 'format'
    if any(len(i) != len(values) for i in indices) or len(indices) != len(shape):
        return 'length'
    if tuple(dense.shape) != shape:
        return 'shape'
    tuples = [tuple(int(i[k]) for i in indices) for k in range(len(values))]
    if any(not (0 <= t < n) for tup in tuples for t, n in zip(tup, shape)):
        return 'range'
    if any(not a < b for a, b in zip(tuples, tuples[1:])):
        return 'order'
    listed = {}
    for t, v in zip(tuples, values):
        listed[t] = listed.get(t, 0) + frac(v)    # additive meaning (no duplicates at this point)
    scale = max([1.] + [abs(float(v)) for v in values] + [abs(float(v)) for v in dense.reshape(-1)]) if tol else 0
    for pos in itertools.product(*[range(n) for n in shape]):
        d = frac(dense[pos]); l = listed.get(pos, Fraction(0))
        if d != l and not (tol and abs(float(d - l)) <= tol * scale):
            return 'scatter'
    return None


def py_check_csr(values, rowptr, colidx, ncols, dense, tol=0.):
    values = numpy.asarray(values); dense = numpy.asarray(dense); rowptr = numpy.asarray(rowptr); colidx = numpy.asarray(colidx)
    if values.ndim != 1 or rowptr.ndim != 1 or colidx.ndim != 1 or rowptr.dtype.kind not in 'iu' or colidx.dtype.kind not in 'iu':
        return 'format'
    rp = [int(x) for x in rowptr]; ci = [int(x) for x in colidx]; ncols = int(ncols)
    if dense.ndim != 2 or len(rp) != dense.shape[0] + 1: return 'rowptr-length'
    if rp[0] != 0: return 'rowptr-first'
    if any(a > b for a, b in zip(rp, rp[1:])): return 'rowptr-monotone'
    if rp[-1] != len(values): return 'rowptr-last'
    if len(ci) != len(values): return 'colidx-length'
    if any(not (0 <= j < ncols) for j in ci): return 'colidx-range'
    if dense.shape[1] != ncols: return 'shape'
    scale = max([1.] + [abs(float(v)) for v in values] + [abs(float(v)) for v in dense.reshape(-1)]) if tol else 0
    for i in range(dense.shape[0]):
        cols = ci[rp[i]:rp[i+1]]
        if any(not a < b for a, b in zip(cols, cols[1:])): return 'colidx-order'
        row = {}
        for j, v in zip(cols, values[rp[i]:rp[i+1]]):
            row[j] = row.get(j, 0) + frac(v)
        for j in range(ncols):
            d = frac(dense[i, j]); l = row.get(j, Fraction(0))
            if d != l and not (tol and abs(float(d - l)) <= tol * scale):
                return 'scatter'
    return None


# ---------------------------------------------------------------------------------------------------------------------
# generators

INEXACT = ('Sin', 'Cos', 'Tan', 'Exp', 'ArcTan', 'SinH', 'CosH', 'TanH', 'Reciprocal', 'Inverse', 'Power', 'Legendre', 'Log', 'Sqrt')


def is_exact(e):
    """float evaluation of e on dyadic data is exact (no division / transcendental function); Power with small natural exponents is exact"""
    for n in shrink.all_nodes(e):
        name = type(n).__name__
        if name == 'Power':
            p = n.power
            if not (isinstance(p, ev.Constant) and (numpy.asarray(p.value) >= 0).all() and (numpy.asarray(p.value) == numpy.round(p.value)).all()):
                return False
        elif name in INEXACT or name in ('Determinant',) and False:
            return False
    return True


def random_dag(rng, maxdepth):
    depth = rng.choice(range(1, maxdepth+1))
    dtype = rng.choice([float, float, float, int, int])
    allow = None if rng.random() < .25 else STRUCTURAL
    return genexpr.random_case(rng, depth=depth, dtype=dtype, allow=allow)


def sparse_dag(rng, maxdepth):
    """raw trees made only of the classes that have their own `_assparse` (every override is reached with sparse children)"""
    g = genexpr.Gen(rng, allow=['InsertAxis', 'Transpose', 'Add', 'Multiply', 'Sum', 'Inflate', 'Diagonalize', 'Ravel', 'Unravel', 'Unravel0', 'LoopSum', 'LoopConcatenate'], share=.15)
    nd = rng.choice([1, 2, 2, 3, 3])
    shape = tuple(rng.choice([1, 2, 2, 3, 3, 4, 0]) for _ in range(nd))
    return g.array(rng.choice([float, float, int]), shape, rng.choice(range(2, maxdepth+2))), g


def fem_case(rng):
    """element loop with element-dependent block sizes: LoopSum of Inflate of per-element blocks (1-D, 2-D, 0-D),
    LoopConcatenate of variable-length chunks; values depend on a real argument (symbolic in Lean)"""
    nel = rng.choice([0, 1, 2, 3, 3, 4])
    sizes = [rng.choice([0, 1, 2, 2, 3]) for _ in range(nel)]
    sizes2 = [rng.choice([1, 2, 3, 0]) for _ in range(nel)]
    N = rng.choice([1, 2, 3, 4, 5]); M = rng.choice([1, 2, 3, 4])
    def table(sz, n):
        t = []
        for k in sz:
            t += rng.sample(range(n), k) if k <= n and rng.random() < .6 else [rng.randrange(n) for _ in range(k)]
        return t
    args = {}
    idx = ev.loop_index('e%d' % rng.getrandbits(20), ev.constant(nel))
    def per_element(sz, n, name):
        off = numpy.cumsum([0] + sz)
        ni = ev.Take(ev.Constant(types.arraydata(numpy.array(sz + [0], dtype=int))), idx)
        oi = ev.Take(ev.Constant(types.arraydata(numpy.array(off, dtype=int))), idx)
        sl = ev.Range(ni) + ev.InsertAxis(oi, ni)
        tab = table(sz, n)
        dofs = ev.Take(ev.Constant(types.arraydata(numpy.array(tab + [0], dtype=int))), sl)
        args[name] = numpy.array([rng.randint(-8, 8) / rng.choice([1., 2., 4.]) for _ in range(int(off[-1]) + 1)])
        coeffs = ev.Take(ev.Argument(name, (ev.constant(int(off[-1]) + 1),), float), sl)
        if rng.random() < .5:
            coeffs = coeffs * ev.InsertAxis(ev.IntToFloat(idx + ev.constant(1)), ni)
        return ni, dofs, coeffs
    n1, dofs1, c1 = per_element(sizes, N, 'u')
    n2, dofs2, c2 = per_element(sizes2, M, 'w')
    kind = rng.choice(['vec', 'mat', 'mat', 'mat-fixed', 'scalar', 'concat', 'concat-inflate', 'mat-diag', 'nested'])
    if kind == 'vec':
        e = ev.loop_sum(ev.Inflate(c1, dofs1, ev.constant(N)), idx)
    elif kind == 'mat':
        block = ev.insertaxis(c1, 1, n2) * ev.insertaxis(c2, 0, n1)
        e = ev.loop_sum(ev._inflate(ev._inflate(block, dofs1, ev.constant(N), 0), dofs2, ev.constant(M), 1), idx)
    elif kind == 'mat-fixed':
        k = rng.choice([1, 2, 3])
        args['f'] = numpy.array([rng.randint(-4, 4) / 2. for _ in range(k)])
        block = ev.insertaxis(c1, 1, ev.constant(k)) * ev.insertaxis(ev.Argument('f', (ev.constant(k),), float), 0, n1)
        e = ev.loop_sum(ev._inflate(block, dofs1, ev.constant(N), 0), idx)
        if rng.random() < .5:
            e = ev.transpose(e, (1, 0))
    elif kind == 'scalar':
        e = ev.loop_sum(ev.Sum(c1 * c1), idx)
    elif kind == 'concat':
        e = ev.loop_concatenate(c1, idx)
    elif kind == 'concat-inflate':
        total = sum(sizes)
        perm = list(range(total)); rng.shuffle(perm)
        e = ev.loop_concatenate(c1, idx)
        e = ev.Inflate(e, ev.Constant(types.arraydata(numpy.array([p % N for p in perm], dtype=int))), ev.constant(N)) if total else ev.Diagonalize(e)
    elif kind == 'mat-diag':
        e = ev.loop_sum(ev.Diagonalize(ev.Inflate(c1, dofs1, ev.constant(N))), idx)
    else:
        # nested loop: inner loop over a fixed range inside the element loop
        j = ev.loop_index('j%d' % rng.getrandbits(20), ev.constant(rng.choice([1, 2])))
        inner = ev.loop_sum(c1 * ev.InsertAxis(ev.IntToFloat(j + ev.constant(1)), n1), j)
        e = ev.loop_sum(ev.Inflate(inner, dofs1, ev.constant(N)), idx)
    return e, args, 'fem:' + kind


# ---------------------------------------------------------------------------------------------------------------------
# sparse extraction of one expression by the real code

def extract(e, mode):
    """mode 'coo' : e.simplified.assparse · 'raw' : e.assparse · 'csr' : evaluable.as_csr(e).
    returns ('ok', (dense_expr, parts...)) | ('exception'|'hang', info)"""
    def run():
        if mode == 'coo':
            s = e.simplified
            values, indices, shape = s.assparse
            return s, values, tuple(indices), tuple(shape)
        if mode == 'raw':
            values, indices, shape = e.assparse
            return e, values, tuple(indices), tuple(shape)
        values, rowptr, colidx, ncols = ev.as_csr(e)
        return e.simplified, values, rowptr, colidx, ncols
    return X.guarded(run, 20)


def roots_of(mode, ext, e):
    if mode in ('coo', 'raw'):
        dense, values, indices, shape = ext
        return [dense, values, *indices, *shape, e], dict(kind='coo', ndim=len(indices))
    dense, values, rowptr, colidx, ncols = ext
    return [dense, values, rowptr, colidx, ncols, e], dict(kind='csr')


def real_parts(mode, ext, args):
    """evaluate the real sparse trees and the dense expression with the real compiled code (no simplification, no
    optimisation: the trees are evaluated as they are)"""
    def run():
        with numpy.errstate(all='ignore'):
            if mode in ('coo', 'raw'):
                dense, values, indices, shape = ext
                return ev.eval_once((dense, values, tuple(indices), tuple(shape)), arguments=args, _simplify=False, _optimize=False)
            dense, values, rowptr, colidx, ncols = ext
            return ev.eval_once((dense, values, rowptr, colidx, ncols), arguments=args, _simplify=False, _optimize=False)
    return X.guarded(run, 30)


def py_verdict(mode, parts, tol):
    if mode in ('coo', 'raw'):
        dense, values, indices, shape = parts
        return py_check_coo(values, indices, shape, dense, tol)
    dense, values, rowptr, colidx, ncols = parts
    return py_check_csr(values, rowptr, colidx, ncols, dense, tol)


def finite(parts):
    def ok(a):
        if isinstance(a, (tuple, list)): return all(ok(x) for x in a)
        a = numpy.asarray(a)
        return a.dtype.kind not in 'fc' or bool(numpy.isfinite(a).all())
    return ok(parts)


# ---------------------------------------------------------------------------------------------------------------------
# (V) stream

def signature(mode, clause, e, args, tol):
    """root-cause signature: mechanism + failed clause + class skeleton of the shrunk expression"""
    def fails(e2, a2):
        k, ext = extract(e2, mode)
        if k != 'ok': return False
        k, parts = real_parts(mode, ext, a2)
        return k == 'ok' and finite(parts) and py_verdict(mode, parts, tol) is not None
    try:
        small, sargs = shrink.shrink(e, args, fails, budget=40)
    except Exception:
        small, sargs = e, args
    return '%s-wrong:%s:%s' % ({'coo': 'assparse', 'raw': 'assparse', 'csr': 'as_csr'}[mode], clause, shrink.skeleton(small)), small, sargs


def features(s):
    """which of the higher-rank mechanisms are present in a (simplified) tree: evidence that they survive simplification"""
    f = set()
    for n in shrink.all_nodes(s):
        name = type(n).__name__
        if name == 'Inflate':
            f.add('Inflate:dofmap-ndim=%d' % n.dofmap.ndim)
        elif name == 'Multiply':
            f.add('Multiply:factors=%d' % min(len(tuple(n._factors)), 5))
        elif name in ('LoopSum', 'LoopConcatenate'):
            f.add('%s:ndim=%d' % (name, n.ndim))
    return f


STRUCT = dict(prod=G.product_case, inflate=G.inflate_case, loop=G.loop_case)


def v_plan(c, ncases, maxdepth, npy, struct):
    """list of (judged by Lean too?, producer of (expr, arguments, tag)).  `struct`: counts of the structured higher-rank generators
    (nvh.c05_gen) appended to the real-evaluation-only part; one in six of the Lean-judged cases is structured, too"""
    def dag(lean):
        def make():
            e, g = random_dag(c.rng, maxdepth) if lean else sparse_dag(c.rng, maxdepth)
            return e, g.args, 'dag' if lean else 'sparse-dag', g
        return make
    def dag5():
        e, g = G.sparse_dag5(c.rng, maxdepth)
        return e, g.args, 'sparse-dag5', g
    plan = []
    for i in range(ncases + npy):
        lean = i < ncases
        if i % 3 == 2:
            if lean and i % 6 == 5:
                plan.append((lean, (lambda k: lambda: STRUCT[k](c.rng, small=True))(c.rng.choice(['prod', 'inflate', 'loop']))))
            else:
                plan.append((lean, lambda: fem_case(c.rng)))
        else:
            plan.append((lean, dag(lean)))
    extra = []
    for kind, n in sorted(struct.items()):
        if kind.startswith('orders'):
            nd = int(kind[6:])
            for rep in range(n):
                it = G.product_orders(c.rng, nd)
                extra += [(False, (lambda it: lambda: next(it))(it)) for _ in range(G.n_orders(nd))]
        elif kind == 'dag5':
            extra += [(False, dag5)] * n
        else:
            extra += [(False, (lambda k: lambda: STRUCT[k](c.rng))(kind))] * n
    return plan + extra


def screen(payload):
    """worker process: the real code + the exact oracle on one case (all three extraction modes).  Returns ('dense', kind) when the dense
    expression does not evaluate, ('clean', [(mode, status, nnz, features)]) when nothing needs a verdict, else ('suspicious',)"""
    try:
        if payload is None: return ('suspicious',)
        e, args = pickle.loads(payload)
        k0, v0 = X.real_eval(e, args)
        if k0 != 'ok': return ('dense', k0)
        tol = 0. if is_exact(e) else 1e-9
        recs = []
        for mode in ['coo'] + (['csr'] if e.ndim == 2 else []) + ['raw']:
            kx, ext = extract(e, mode)
            if kx != 'ok':
                if mode != 'raw' and kx == 'exception' and 'caught in a loop' in str(ext) or kx == 'hang':
                    recs.append((mode, 'simplify-nonterminating(C01)', 0, ())); continue
                if mode == 'raw':
                    recs.append((mode, 'extract-%s:%s' % (kx, type(ext).__name__), 0, ())); continue
                return ('suspicious',)
            kr, parts = real_parts(mode, ext, args)
            if kr != 'ok': return ('suspicious',)
            feats = tuple(sorted(features(ext[0]))) if mode == 'coo' else ()
            if not finite(parts):
                recs.append((mode, 'real-nonfinite', 0, feats)); continue
            if py_verdict(mode, parts, tol) is not None: return ('suspicious',)
            recs.append((mode, 'ok', len(parts[1]), feats))
        return ('clean', recs)
    except BaseException:
        return ('suspicious',)


SYM_ATOMS = 40   # a case is evaluated symbolically in all its real arguments when they have at most this many entries in total


def v_stream(c, ncases, maxdepth, npy=0, struct={}, prefix='V', late=False, pool=None):
    """late: the stream has nothing for Lean (ncases = 0) and does all its work (real extraction, real evaluation, exact recomputation
    oracle) after it has been resumed, i.e. while the Lean driver is busy with the requests of the other streams"""
    if late:
        assert ncases == 0
        yield []
    cases, reqs, pyonly = [], [], []
    out = collections.Counter()
    hits = collections.Counter()
    generated = []
    for lean, make in v_plan(c, ncases, maxdepth, npy, struct):
        try:
            e, args, tag, *g = make()
            for k, v in (g[0].hits.items() if g else ()): hits['gen:' + k] += v
        except StopIteration:
            continue
        except Exception as ex:
            out['generator-exception:' + type(ex).__name__] += 1; continue
        if ':' in tag:
            out['struct:' + tag.split('+')[0].split('/')[0]] += 1
            for op in tag.split('+')[0].split('/')[1:]: out['struct:%s:%s' % (tag.split(':')[0], op)] += 1
            for op in tag.split('+')[1:]: out['struct:post-op:' + op] += 1
            tag = tag.split(':')[0]
        out['generated:' + tag] += 1
        generated.append((lean, e, args, tag))
    # real-evaluation-only cases are screened in parallel worker processes (pure function of the case: real extraction, real
    # evaluation, exact oracle); everything that is not plainly clean is re-done below in this process, where the verdicts are made
    screened = {}
    nclean = 0
    if pool is not None:
        todo = [(i, e, args) for i, (lean, e, args, tag) in enumerate(generated) if not lean]
        payloads = []
        for i, e, args in todo:
            try: payloads.append(pickle.dumps((e, args)))
            except Exception: payloads.append(None)
        for (i, e, args), res in zip(todo, pool.imap(screen, payloads, chunksize=4)):
            screened[i] = res
    for i, (lean, e, args, tag) in enumerate(generated):
        res = screened.get(i, ('suspicious',))
        if res[0] == 'dense':
            out['dense-not-evaluable:' + res[1]] += 1; continue
        if res[0] == 'clean':
            for mode, status, nnz, feats in res[1]:
                for f in feats: hits['simplified-tree:' + f] += 1
                if status != 'ok':
                    out['%s:%s' % (mode, status)] += 1; continue
                c.case((e.__nutils_hash__, mode), nontrivial=e.ndim > 0 and nnz > 0)
                out['%s:ndim=%d' % (mode, e.ndim)] += 1; out['%s:real:ok' % mode] += 1
                if nnz == 0: out[mode + ':nnz=0'] += 1
                nclean += 1; c.traces += 1
            continue
        k0, v0 = X.real_eval(e, args)
        if k0 != 'ok':
            out['dense-not-evaluable:' + k0] += 1
            continue
        exact = is_exact(e)
        tol = 0. if exact else 1e-9
        modes = ['coo'] + (['csr'] if e.ndim == 2 else []) + (['raw'] if not lean or c.rng.random() < .6 else [])
        for mode in modes:
            kx, ext = extract(e, mode)
            if kx != 'ok':
                if mode != 'raw' and kx == 'exception' and 'caught in a loop' in str(ext) or kx == 'hang':
                    out['%s:simplify-nonterminating(C01)' % mode] += 1; continue
                out['%s:extract-%s:%s' % (mode, kx, type(ext).__name__)] += 1
                if mode == 'raw':
                    # `_assparse` implementations rely on invariants of simplified trees (e.g. Multiply._assparse assumes that no axis is
                    # inserted in all factors); as_coo / as_csr always simplify first: an exception on a raw tree is outside the property
                    continue
                c.case((e.__nutils_hash__, mode))
                c.failing_input('sparse-extraction-raises:%s:%s:%s' % (mode, type(ext).__name__, shrink.skeleton(e)),
                                'sparse extraction (%s) raises %s: %s while the dense expression evaluates' % (mode, type(ext).__name__, str(ext)[:120]),
                                dict(mode=mode, tag=tag, expr=X.describe(e, args), pickled=pack(e, args)))
                continue
            kr, parts = real_parts(mode, ext, args)
            if mode == 'coo':
                for f in features(ext[0]): hits['simplified-tree:' + f] += 1
            if not lean:
                pyonly.append(dict(e=e, args=args, tag=tag, mode=mode, ext=ext, kr=kr, parts=parts, tol=tol, dense0=v0))
                continue
            roots, spec = roots_of(mode, ext, e)
            nroots = len(roots)
            float_args = {k: v for k, v in args.items() if numpy.asarray(v).dtype.kind == 'f'}
            if sum(numpy.asarray(v).size for v in float_args.values()) > SYM_ATOMS:
                # polynomials in that many unknowns can take the (interpreted) Lean evaluator many minutes: the second request of this
                # case is concrete, too (decided exactly at the sample point only; counted as such)
                float_args = {}; out[mode + ':symbolic-request-skipped(more than %d real unknowns)' % SYM_ATOMS] += 1
            try:
                r1, s1 = ser.request(roots, args, cmp=[(0, nroots-1)])
                r2, _ = ser.request(roots, {k: v for k, v in args.items() if k not in float_args}, symbolic={k: numpy.asarray(v).shape for k, v in float_args.items()}, cmp=[(0, nroots-1)])
            except ValueError:
                out[mode + ':not-serialisable'] += 1; continue
            for cls in s1.classes: hits['sparse-tree:' + cls] += 1
            j1 = json.loads(r1); j1['c05'] = dict(spec, results=True)
            j2 = json.loads(r2); j2['c05'] = dict(spec, results=False)
            cases.append(dict(e=e, args=args, tag=tag, mode=mode, ext=ext, kr=kr, parts=parts, tol=tol, dense0=v0, sym=bool(float_args) or not any(numpy.asarray(v).dtype.kind == 'f' for v in args.values())))
            reqs += [json.dumps(j1, separators=(',', ':')), json.dumps(j2, separators=(',', ':'))]
    c.log('%s: %d requests for the Lean evaluator, %d cases for the real-evaluation oracle only' % (prefix, len(reqs), len(pyonly)))
    ans = []
    for a in ([] if late else (yield reqs)):
        if a.startswith('bad-request'):
            raise Infra('C05 driver rejected a request: ' + a[:300])
        ans.append(json.loads(a))
    nsym = nconc = nspec = nspec_bad = 0
    nreal = nclean
    none = dict(verdict='not-asked', nnz=-1)
    for case, a1, a2 in list(zip(cases, ans[0::2], ans[1::2])) + [(case, none, none) for case in pyonly]:
        e, args, mode, parts, tol = case['e'], case['args'], case['mode'], case['parts'], case['tol']
        key = (e.__nutils_hash__, mode)
        nnz = a1.get('nnz', 0)
        if nnz < 0:
            nnz = len(parts[1]) if case['kr'] == 'ok' else 0
        c.case(key, nontrivial=e.ndim > 0 and nnz > 0)
        out['%s:lean-concrete:%s' % (mode, a1['verdict'].split(':')[0] if a1['verdict'].startswith('error') else a1['verdict'])] += 1
        out['%s:lean-symbolic:%s' % (mode, a2['verdict'].split(':')[0] if a2['verdict'].startswith('error') else a2['verdict'])] += 1
        if a1['verdict'].startswith('error:unsupported'): out['unsupported:' + a1['verdict'].split(':', 2)[2]] += 1
        out['%s:ndim=%d' % (mode, e.ndim)] += 1
        if mode == 'coo' and a1.get('cmp') == ['differ']: out['coo:simplified-differs-from-original-at-sample-point(C01 domain, not judged here)'] += 1
        if nnz == 0: out[mode + ':nnz=0'] += 1
        replay = dict(mode=mode, tag=case['tag'], expr=X.describe(e, args), pickled=pack(e, args), lean_concrete=a1['verdict'], lean_symbolic=a2['verdict'])
        # ---- (1) the real compiled code on the real sparse trees, exact recomputation oracle
        real = None
        if case['kr'] == 'ok' and finite(parts):
            real = py_verdict(mode, parts, tol)
            nreal += 1; c.traces += 1
            out['%s:real:%s' % (mode, real or 'ok')] += 1
            if real is not None:
                if sum(1 for v in c.violations if v[2].startswith(('assparse-wrong', 'as_csr-wrong'))) < 4:
                    sig, small, sargs = signature(mode, real, e, args, tol)
                else:   # enough shrunk root-cause signatures: do not spend the budget on delta debugging
                    sig, small, sargs = '%s-wrong:%s' % ('as_csr' if mode == 'csr' else 'assparse', real), e, args
                c.failing_input(sig, 'the evaluated sparse data (%s) do not denote the dense array: clause %s fails' % (mode, real),
                                dict(replay, expr=X.describe(small, sargs), pickled=pack(small, sargs), original=X.describe(e, args), clause=real,
                                     real=[numpy.asarray(p).tolist() if not isinstance(p, tuple) else [numpy.asarray(q).tolist() for q in p] for p in parts]))
                continue
        elif case['kr'] in ('exception', 'hang'):
            out['%s:real-eval-%s:%s' % (mode, case['kr'], type(parts).__name__)] += 1
            c.failing_input('sparse-evaluation-raises:%s:%s:%s' % (mode, type(parts).__name__, shrink.skeleton(e)),
                            'evaluating the sparse data (%s) raises %s: %s while the dense expression evaluates' % (mode, type(parts).__name__, str(parts)[:120]), replay)
            continue
        else:
            out[mode + ':real-nonfinite'] += 1
        # ---- (2) spec-eval correspondence on every root (validates Model/Expr on sparse trees)
        if real is None and case['kr'] == 'ok' and finite(parts) and 'results' in a1:
            flat = []
            for p in parts: flat += list(p) if isinstance(p, tuple) else [p]
            for k, (res, val) in enumerate(zip(a1['results'], flat)):
                m = X.compare_result(res, val)
                if m in ('exact', 'close'):
                    nspec += 1
                elif m in ('shape', 'value', 'error:illformed'):
                    nspec_bad += 1
                    c.broken_no_input('corr:spec-eval', 'Lean specification evaluator and real evaluation of the same sparse tree disagree (root %d: %s)' % (k, m),
                                      dict(replay, root=k, lean=res, real=numpy.asarray(val).tolist()))
                    break
                else:
                    out['spec-eval:' + m] += 1
        # ---- (3) Lean verdicts
        if a2['verdict'] == 'ok' and case.get('sym', True):
            nsym += 1; out[mode + ':verdict:proved-symbolically'] += 1
        elif a1['verdict'] == 'ok':
            nconc += 1; out[mode + ':verdict:exact-at-sample-point'] += 1
        elif a1['verdict'] == 'not-asked':
            pass
        elif a1['verdict'].startswith('fail:'):
            # candidate: Lean rejects at the sample point but the real evaluation passed the exact oracle (or could not run)
            if real is None and case['kr'] == 'ok' and finite(parts) and tol == 0:
                c.broken_no_input('corr:spec-eval', 'Lean checker rejects (%s) sparse data that the real evaluation + exact oracle accept' % a1['verdict'], replay)
            else:
                out[mode + ':verdict:lean-fail-inexact-or-unevaluated'] += 1
        else:
            out[mode + ':verdict:lean-cannot-decide'] += 1
        if len(c.samples) < 3 and nnz > 1 and e.ndim >= 1 and case['kr'] == 'ok':
            c.sample(dict(stream='V', mode=mode, expr=X.describe(e, args)['tree'][:1200], lean_symbolic=a2['verdict'], lean_concrete=a1['verdict'],
                          real=[numpy.asarray(p).tolist() if not isinstance(p, tuple) else [numpy.asarray(q).tolist() for q in p] for p in parts[1:]]))
    for k, v in sorted(out.items()): c.count(prefix + ':' + k, v)
    for k, v in sorted(hits.items()): c.count(prefix + ':' + k if prefix != 'V' else k, v)
    if ncases:
        c.extra['proved_symbolically_for_all_real_arguments'] = nsym
        c.extra['decided_exactly_at_sample_point_only'] = nconc
        c.obligation('corr:spec-eval(sparse-trees)', nspec_bad == 0 and nspec > 0, 'correspondence', '%d roots of real sparse trees evaluated identically by the Lean spec and the real code' % nspec)
        c.obligation('valid:sparse-denotes-dense(lean)', nsym + nconc > 0 and not any(v[2].startswith(('assparse-wrong', 'as_csr-wrong')) for v in c.violations), 'validation',
                     '%d symbolic (all real arguments) + %d exact at the sample point' % (nsym, nconc))
    c.obligation('oracle:real-sparse-eval-denotes-dense' + ('' if prefix == 'V' else '(%s)' % prefix), nreal > 0 and not any(v[2].startswith(('assparse-wrong', 'as_csr-wrong', 'sparse-')) for v in c.violations), 'correspondence',
                 '%d real evaluations of sparse tuples checked by exact recomputation' % nreal)


# ---------------------------------------------------------------------------------------------------------------------
# (M) streams on integer data

def ints(a):
    return ' '.join(str(int(x)) for x in a)


def lists(l):
    return ';'.join(ints(t) for t in l)


def gen_entries(rng, maxdim=3):
    nd = rng.choice([1, 1, 2, 2, 2, 3][:2 + 2 * maxdim])
    shape = [rng.choice([1, 2, 3, 4]) for _ in range(nd)]
    m = rng.choice([0, 1, 2, 3, 5, 8])
    tuples = [[rng.randrange(n) for n in shape] for _ in range(m)]
    if m >= 2 and rng.random() < .6:   # force duplicates
        for _ in range(rng.randint(1, m // 2)):
            tuples[rng.randrange(m)] = list(tuples[rng.randrange(m)])
    values = [rng.choice([0, 1, -1, 2, 3, -5, 7]) for _ in range(m)]
    return shape, tuples, values


def gen_entries_hi(rng):
    """entry list of a rank 2..4 array with pairwise different axis lengths (a stride or axis mix-up between axes of equal length is invisible)"""
    nd = rng.choice([2, 3, 3, 3, 4, 4])
    shape = list(G.distinct_shape(rng, nd, maxsize=72))
    m = rng.choice([1, 2, 3, 5, 8, 12, 20])
    tuples = [[rng.randrange(n) for n in shape] for _ in range(m)]
    if m >= 2 and rng.random() < .4:
        for _ in range(rng.randint(1, m // 2)):
            tuples[rng.randrange(m)] = list(tuples[rng.randrange(m)])
    values = [rng.choice([1, -1, 2, 3, -5, 7]) for _ in range(m)]
    return shape, tuples, values


def py_merge(shape, tuples, values):
    acc = {}
    for t, v in zip(tuples, values):
        acc[tuple(t)] = acc.get(tuple(t), 0) + v
    keys = sorted(acc)
    return [list(k) for k in keys], [acc[k] for k in keys]


def py_dense(shape, tuples, values):
    d = numpy.zeros(shape, dtype=int)
    for t, v in zip(tuples, values):
        d[tuple(t)] += v
    return d


def m_compress(c, n):
    from nutils import numeric
    cases = [([], 0), ([], 3), ([0, 0, 2], 4), ([1, 0], 2), ([-1, 0], 2), ([0, 3], 3), ([2], 3), ([0], 1), ([0, 1, 2], 3), ([3, 3, 3], 4)]
    for _ in range(n):
        k = c.rng.randint(0, 6)
        idx = sorted(c.rng.randint(0, max(0, k-1)) for _ in range(c.rng.randint(0, 7))) if k else []
        r = c.rng.random()
        if idx and r < .12: idx[c.rng.randrange(len(idx))] = k + c.rng.randint(0, 1)
        elif idx and r < .24: idx[c.rng.randrange(len(idx))] = -c.rng.randint(1, 2)
        elif len(idx) > 1 and r < .4: c.rng.shuffle(idx)
        cases.append((idx, k))
    ans = yield ['compress|%s|%d' % (ints(i), k) for i, k in cases]
    nbad = 0
    for (idx, k), a in zip(cases, ans):
        try:
            r = 'ok|' + ints(numeric.compress_indices(numpy.array(idx, dtype=int), k))
        except ValueError as e:
            r = 'err|' + ('bounds' if 'bounds' in str(e) else 'monotone')
        except Exception as e:
            r = 'exc|' + type(e).__name__
        c.case(('compress', tuple(idx), k), nontrivial=len(idx) > 0); c.count('M:compress:' + r.split('|')[0])
        pre = sorted(idx) == idx and all(0 <= i < k for i in idx)
        replay = dict(op='compress_indices', indices=idx, length=k, real=r, model=a)
        f = a.split('|')
        # specification oracle: succeeds iff precondition, then equals searchsorted (exact ints)
        want = 'ok|' + ints([sum(1 for x in idx if x < i) for i in range(k+1)]) if pre else None
        if (r.startswith('ok') and r != want) or (pre and not r.startswith('ok')):
            c.failing_input('compress_indices-wrong', 'compress_indices does not return the searchsorted row pointers of a monotone in-range vector, or accepts a vector outside its precondition', replay); nbad += 1; continue
        if f[:2] != r.split('|')[:2] or (f[0] == 'ok' and f[2] != 'spec-agrees') or (f[-1] == 'pre') != pre or (f[0] == 'ok') != pre:
            nbad += 1
            c.broken_no_input('corr:compress_indices', 'model and implementation (or model and theorem compress_indices_spec) disagree', replay)
        c.traces += 1
    c.obligation('corr:compress_indices', nbad == 0, 'correspondence', '%d vectors (empty, repeated, out of range, unsorted)' % len(cases))


def m_accumulate(c, n):
    from nutils import numeric
    cases = []
    for _ in range(n):
        shape, tuples, values = gen_entries(c.rng)
        if c.rng.random() < .1: shape, tuples = [], [[] for _ in tuples]
        cases.append((shape, tuples, values, c.rng.choice([float, int])))
    ans = yield ['accumulate|%s|%s|%s' % (ints(s), lists(t) if s else ';'.join('' for _ in t), ints(v)) for s, t, v, _ in cases if s]
    it = iter(ans)
    nbad = 0
    for shape, tuples, values, dtype in cases:
        data = numpy.array(values, dtype=dtype)
        index = [numpy.array([t[k] for t in tuples], dtype=int) for k in range(len(shape))]
        want = py_dense(shape, tuples, values) if shape else numpy.array(sum(values))
        try:
            got = numeric.accumulate(data, index, tuple(shape))
            ok = numpy.asarray(got).shape == want.shape and [frac(x) for x in numpy.asarray(got).reshape(-1)] == [frac(x) for x in want.reshape(-1)]
            got_l = numpy.asarray(got).tolist()
        except Exception as e:
            ok, got_l = False, 'exception %s: %s' % (type(e).__name__, e)
        c.case(('accumulate', tuple(shape), tuple(map(tuple, tuples)), tuple(values), dtype.__name__), nontrivial=len(values) > 0)
        c.count('M:accumulate:%s:%dd' % (dtype.__name__, len(shape)))
        replay = dict(op='accumulate', shape=shape, tuples=tuples, values=values, dtype=dtype.__name__, real=got_l, want=want.tolist())
        a = next(it) if shape else None
        if not ok:
            c.failing_input('accumulate-wrong', 'numeric.accumulate differs from the additive scatter of the data', replay); nbad += 1; continue
        if shape:
            if a != ints(want.reshape(-1)):
                nbad += 1; c.broken_no_input('corr:accumulate', 'Lean model `accumulate` differs from the exact recomputation', dict(replay, model=a))
        c.traces += 1
    c.obligation('corr:accumulate', nbad == 0, 'correspondence', '%d scatter-adds (float/bincount and int/add.at paths, 0-d, empty)' % len(cases))


def m_unique(c, n):
    cases = [[], [0], [3, 1, 3, 0, 1], [2, 2, 2], [5, 4, 3, 2, 1, 0]]
    for _ in range(n):
        m = c.rng.choice([0, 1, 2, 3, 5, 8, 12])
        hi = c.rng.choice([1, 2, 4, 9])
        cases.append([c.rng.randrange(hi) for _ in range(m)])
    ans = yield ['unique|' + ints(f) for f in cases]
    nbad = 0
    for f, a in zip(cases, ans):
        arr = ev.Constant(types.arraydata(numpy.array(f, dtype=int)))
        k, val = X.guarded(lambda: ev.eval_once((*ev.unique(arr, return_inverse=True), ev.ArgSort(arr), ev.unique(arr, return_index=True)[1], ev.unique(arr)), _simplify=False, _optimize=False), 20) if f else ('ok', ([], [], [], [], []))
        c.case(('unique', tuple(f)), nontrivial=len(set(f)) < len(f)); c.count('M:unique:%s' % ('dups' if len(set(f)) < len(f) else 'nodups'))
        replay = dict(op='unique', array=f, model=a)
        if k != 'ok':
            c.failing_input('unique-raises', 'evaluable.unique raises %r' % val, replay); nbad += 1; continue
        uniq, inverse, sorter, index, uniq2 = [[int(x) for x in numpy.asarray(v)] for v in val]
        replay['real'] = dict(unique=uniq, inverse=inverse, sorter=sorter, index=index)
        # specification: unique = sorted distinct, unique[inverse] = array, array[index] = unique, index = first occurrences, sorter = stable argsort
        spec = (uniq == sorted(set(f)) and uniq2 == uniq and len(inverse) == len(f) and all(0 <= i < len(uniq) and uniq[i] == x for i, x in zip(inverse, f))
                and index == [f.index(u) for u in uniq] and sorter == sorted(range(len(f)), key=lambda i: (f[i], i)))
        if not spec:
            c.failing_input('unique-wrong', 'evaluable.unique / ArgSort do not return the sorted distinct entries with a consistent inverse / first-occurrence index', replay); nbad += 1; continue
        if a != '%s|%s|%s' % (ints(uniq), ints(inverse), ints(sorter)):
            nbad += 1; c.broken_no_input('corr:unique', 'Lean model uniqueInv/argsortStable differs from the real unique pipeline', replay)
        c.traces += 1
    c.obligation('corr:unique(ArgSort,UniqueMask,Find,UniqueInverse)', nbad == 0, 'correspondence', '%d integer vectors' % len(cases))


def scatter_expr(shape, tuples, values, dtype=float, name='v'):
    """real expression whose `_assparse` chunk is exactly (tuples, values): Unravel^k(Inflate(values, flat, prod(shape)))"""
    flat = [int(numpy.ravel_multi_index(t, shape)) if tuples else 0 for t in tuples]
    # the values are an argument (not a constant) so that the simplifier inside as_csr cannot fold explicit zeros away
    e = ev.Inflate(ev.Argument(name, (ev.constant(len(values)),), dtype), ev.Constant(types.arraydata(numpy.array(flat, dtype=int))), ev.constant(int(numpy.prod(shape))))
    for k in range(len(shape) - 1):
        e = ev.Unravel(e, ev.constant(shape[k]), ev.constant(int(numpy.prod(shape[k+1:]))))
    return e


def scatter_sum(rng, shape, tuples, values):
    """the same entries split over 1..4 chunks of different lengths: Add(Add(chunk0, chunk1), ...)"""
    cuts = sorted(rng.randint(0, len(values)) for _ in range(rng.choice([0, 0, 1, 2, 3])))
    bounds = [0] + cuts + [len(values)]
    e, args = None, {}
    for k, (a, b) in enumerate(zip(bounds, bounds[1:])):
        name = 'v%d' % k
        part = scatter_expr(shape, tuples[a:b], values[a:b], name=name)
        args[name] = numpy.array(values[a:b], dtype=float)
        e = part if e is None else ev.Add(types.frozenmultiset([e, part]))
    return e, args


def m_assparse(c, n):
    cases = [gen_entries(c.rng) for _ in range(n)]
    reqs = []
    for shape, tuples, values in cases:
        reqs.append('assparse|%s|%s|%s' % (ints(shape), lists(tuples), ints(values)))
        mt, mv = py_merge(shape, tuples, values)
        reqs.append('coo|%s|%s|%s|%s' % (ints(shape), lists(mt), ints(mv), ints(py_dense(shape, tuples, values).reshape(-1))))
        if len(shape) == 2:
            reqs.append('ascsr|%d|%s' % (shape[0], lists(mt)))
    it = iter((yield reqs))
    nbad = 0
    for shape, tuples, values in cases:
        a = next(it); acoo = next(it); acsr = next(it) if len(shape) == 2 else None
        mt, mv = py_merge(shape, tuples, values)
        e, eargs = scatter_sum(c.rng, shape, tuples, values)
        c.case(('assparse', tuple(shape), tuple(map(tuple, tuples)), tuple(values)), nontrivial=len(mt) < len(tuples)); c.count('M:assparse:%dd:%dchunks' % (len(shape), len(eargs)))
        replay = dict(op='assparse', shape=shape, tuples=tuples, values=values, model=a, want=[mt, mv])
        def run():
            v, idx, sh = e.assparse
            return ev.eval_once((v, tuple(idx)) + ((ev.as_csr(e),) if len(shape) == 2 else ()), arguments=eargs, _simplify=False, _optimize=False)
        k, val = X.guarded(run, 20)
        if k != 'ok':
            c.failing_input('assparse-merge-raises', 'Array.assparse on a scatter expression raises %r' % val, replay); nbad += 1; continue
        rv = [frac(x) for x in val[0]]; rt = [[int(i[j]) for i in val[1]] for j in range(len(val[0]))]
        replay['real'] = [rt, [str(x) for x in rv]]
        if rt != mt or rv != [Fraction(x) for x in mv]:
            c.failing_input('assparse-merge-wrong', 'Array.assparse does not return the sorted unique index tuples with the summed values', replay); nbad += 1; continue
        if a != '%s|%s' % (lists(mt), ints(mv)) or acoo != 'ok':
            nbad += 1; c.broken_no_input('corr:assparse-merge', 'Lean model of the assparse merge (or the checker on its output) disagrees with the exact recomputation', dict(replay, checker=acoo))
        if len(shape) == 2:
            cv, crp, cci, cnc = val[2]
            rowptr = [sum(1 for t in mt if t[0] < i) for i in range(shape[0]+1)]
            if [int(x) for x in crp] != rowptr or [int(x) for x in cci] != [t[1] for t in mt] or int(cnc) != shape[1] or [frac(x) for x in cv] != rv:
                c.failing_input('as_csr-wrong', 'evaluable.as_csr does not return the CSR form of the COO data', dict(replay, real_csr=[numpy.asarray(x).tolist() for x in val[2]])); nbad += 1; continue
            if acsr != 'ok|%s|%s' % (ints(rowptr), ints(t[1] for t in mt)):
                nbad += 1; c.broken_no_input('corr:as_csr', 'Lean model asCsr differs from the real as_csr', dict(replay, model_csr=acsr))
        c.traces += 1
    c.obligation('corr:assparse-merge+as_csr', nbad == 0, 'correspondence', '%d entry lists (duplicates, empty, 1-3 dims)' % len(cases))


def judge_chunks(val, ref):
    """exact oracle for evaluated `_assparse` chunks: None when they accumulate to `ref`, else the failed clause"""
    acc, bad = {}, None
    for ch in val:
        *idx, v = [numpy.asarray(a) for a in ch]
        if any(i.shape != v.shape or i.dtype.kind not in 'iu' for i in idx) or len(idx) != ref.ndim: return 'format'
        for pos in itertools.product(*[range(k) for k in v.shape]):
            t = tuple(int(i[pos]) for i in idx)
            if any(not 0 <= a < b for a, b in zip(t, ref.shape)): bad = 'range'
            acc[t] = acc.get(t, 0) + frac(v[pos])
    if bad is None:
        for pos in itertools.product(*[range(k) for k in ref.shape]):
            if acc.get(pos, 0) != frac(ref[pos]): return 'scatter'
    return bad


def m_blockpos(c, n):
    """the position at which `Inflate._assparse` looks the chunk indices of the trailing dofmap.ndim axes up in the flattened dofmap
    (the `indices` of the `Take(flat_dofmap, ...)` it builds), for dofmaps of 1..4 axes: real code vs the Lean model (`blockStrides`,
    `stridedPos`) vs the row-major position (theorem `inflate_block_position`).  Failing input: decided by the exact chunk oracle."""
    cases = []
    for _ in range(n):
        rng = c.rng
        k = rng.choice([1, 2, 2, 3, 3, 3, 4, 4])
        dshape = G.block_shape(rng, k, maxsize=48)
        kshape = tuple(rng.choice([1, 2, 3]) for _ in range(rng.choice([0, 0, 1])))
        size = int(numpy.prod(dshape))
        N = size + rng.choice([0, 1, 3])
        dm = numpy.array(rng.sample(range(N), size), dtype=int).reshape(dshape)     # injective: the dof identifies the block index
        a = numpy.array([rng.randint(-4, 4) for _ in range(size * int(numpy.prod(kshape)))], dtype=float).reshape(kshape + dshape)
        cases.append((dshape, kshape, N, dm, a))
    ans = yield ['blockpos|%s|%s' % (ints(d), lists(itertools.product(*[range(m) for m in d]))) for d, _, _, _, _ in cases]
    nbad = nchecked = 0
    for (dshape, kshape, N, dm, a), answer in zip(cases, ans):
        tuples = list(itertools.product(*[range(m) for m in dshape]))
        X = ev.Inflate(ev.Argument('a', tuple(ev.constant(m) for m in kshape + dshape), float), ev.Constant(types.arraydata(dm)), ev.constant(N))
        ref = numpy.zeros(kshape + (N,))
        for pos in tuples: ref[(Ellipsis, dm[pos])] += a[(Ellipsis,) + pos]
        c.case(('blockpos', dshape, kshape, N, dm.tobytes()), nontrivial=len(dshape) >= 2); c.count('M:blockpos:%dd-dofmap' % len(dshape))
        replay = dict(op='Inflate._assparse block position', dofmap=dm.tolist(), length=N, func=a.tolist(), model=answer)
        def run():
            chunks = X._assparse
            take = chunks[0][-2] if len(chunks) == 1 else None
            pos = take.indices if isinstance(take, ev.Take) and take.indices.shape == X.func.shape else None
            return ev.eval_once((tuple(tuple(ch) for ch in chunks), pos if pos is not None else ev.constant(-1)), arguments={'a': a}, _simplify=False, _optimize=False)
        kx, val = X_guarded(run)
        bad = 'raises %r' % val if kx != 'ok' else judge_chunks(val[0], ref)
        if bad is not None:
            nbad += 1
            c.failing_input('_assparse-chunk-wrong:Inflate:' + bad.split(' ')[0], 'the chunks of Inflate._assparse (block dofmap) do not accumulate to the dense Inflate (%s)' % bad, replay); continue
        c.traces += 1
        pos = numpy.asarray(val[1])
        if pos.shape != kshape + dshape:
            c.count('M:blockpos:position-not-extractable'); continue
        real = [int(pos[(0,) * len(kshape) + t]) for t in tuples]
        uniform = all((pos[i] == pos[(0,) * len(kshape)]).all() for i in itertools.product(*[range(m) for m in kshape]))
        f = answer.split('|')
        want = [int(numpy.ravel_multi_index(t, dshape)) for t in tuples]
        nchecked += 1
        if not uniform or len(f) != 3 or f[1] != ints(real) or f[2] != 'spec-agrees' or real != want:
            nbad += 1
            c.broken_no_input('corr:inflate-block-position', 'the block position of Inflate._assparse differs from the Lean model blockStrides/stridedPos (or from the row-major position) although the chunks denote the dense array',
                              dict(replay, real=real, rowmajor=want))
    c.obligation('corr:inflate-block-position(blockStrides,stridedPos)', nbad == 0 and nchecked > 0, 'correspondence', '%d block dofmaps (1..4 axes): positions of the real chunks = model = row-major' % nchecked)


def m_chunks(c, n):
    """per class: the REAL `_assparse` chunks of X(child), where the chunk of `child` is a known entry list, must accumulate
    (exactly) to the NumPy meaning of X applied to the dense child (`chunks_denote`, one class at a time)"""
    nbad = 0
    yield []
    for _ in range(n):
        rng = c.rng
        hi = rng.random() < .4
        shape, tuples, values = gen_entries_hi(rng) if hi else gen_entries(rng)
        nd = len(shape)
        args = {'v': numpy.array(values, dtype=float)}
        child = scatter_expr(shape, tuples, values)
        dense = py_dense(shape, tuples, values).astype(float)
        ops = ['Diagonalize', 'Transpose', 'InsertAxis', 'Inflate', 'Sum', 'Add', 'Multiply', 'Multiply3', 'Unravel'] + (['Ravel', 'Inflate2', 'Transpose'] if nd >= 2 else [])
        if hi: ops = ['InflateK', 'InflateK', 'MultiplyN', 'MultiplyN', 'Transpose', 'Ravel', 'Unravel', 'Sum', 'Add', 'Diagonalize', 'InsertAxis']
        op = rng.choice(ops); detail = None
        if op == 'Ravel':
            X = ev.Ravel(child); ref = dense.reshape(tuple(shape[:-2]) + (shape[-2] * shape[-1],))
        elif op == 'Unravel':
            a = rng.choice([d for d in range(1, shape[-1] + 1) if shape[-1] % d == 0]); b = shape[-1] // a
            X = ev.Unravel(child, ev.constant(a), ev.constant(b)); ref = dense.reshape(tuple(shape[:-1]) + (a, b))
        elif op == 'Diagonalize':
            X = ev.Diagonalize(child); ref = numpy.zeros(tuple(shape) + (shape[-1],))
            for k in range(shape[-1]): ref[..., k, k] = dense[..., k]
        elif op == 'Transpose':
            axes = list(range(nd)); rng.shuffle(axes)
            if axes == list(range(nd)):
                if nd < 2: continue
                axes = axes[1:] + axes[:1]
            X = ev.Transpose(child, tuple(axes)); ref = dense.transpose(axes)
        elif op == 'InsertAxis':
            k = rng.choice([0, 1, 2, 3]); X = ev.InsertAxis(child, ev.constant(k)); ref = numpy.repeat(dense[..., None], k, -1)
        elif op == 'Inflate':
            N = rng.choice([1, 2, 3, 5]); dm = [rng.randrange(N) for _ in range(shape[-1])]
            X = ev.Inflate(child, ev.Constant(types.arraydata(numpy.array(dm, dtype=int))), ev.constant(N))
            ref = numpy.zeros(tuple(shape[:-1]) + (N,))
            for k, d in enumerate(dm): ref[..., d] += dense[..., k]
        elif op == 'Inflate2':
            N = rng.choice([1, 2, 4, 7]); dm = numpy.array([[rng.randrange(N) for _ in range(shape[-1])] for _ in range(shape[-2])], dtype=int)
            X = ev.Inflate(child, ev.Constant(types.arraydata(dm)), ev.constant(N))
            ref = numpy.zeros(tuple(shape[:-2]) + (N,))
            for k1 in range(shape[-2]):
                for k2 in range(shape[-1]): ref[..., dm[k1, k2]] += dense[..., k1, k2]
        elif op == 'InflateK':   # block inflation: the dofmap spans the trailing k axes (k = 0..nd) of the sparse operand
            k = rng.choice([a for a in range(nd + 1) for _ in range(1 + (a >= 3))])
            dshape = tuple(shape[nd-k:])
            N = rng.choice([1, 2, 3, 5, 7, int(numpy.prod(dshape)) + 1])
            dm = numpy.array(rng.sample(range(N), int(numpy.prod(dshape))) if numpy.prod(dshape) <= N and rng.random() < .5 else [rng.randrange(N) for _ in range(int(numpy.prod(dshape)))], dtype=int).reshape(dshape)
            if rng.random() < .3:
                args['d'] = dm; dofmap = ev.InRange(ev.Argument('d', tuple(ev.constant(n) for n in dshape), int), ev.constant(N))
            else:
                dofmap = ev.Constant(types.arraydata(dm))
            X = ev.Inflate(child, dofmap, ev.constant(N))
            ref = numpy.zeros(tuple(shape[:nd-k]) + (N,))
            for pos in itertools.product(*[range(n) for n in dshape]):
                ref[(Ellipsis, dm[pos])] += dense[(Ellipsis,) + pos]
            detail = '%dd-dofmap' % k
        elif op == 'MultiplyN':  # 2..5 factors on arbitrary axis subsets (each axis real in some factor), sparse or dense, any order and association
            nf = rng.choice([2, 3, 3, 3, 4, 5])
            subsets = G.random_subsets(rng, nd, nf, True)
            first = rng.randrange(nf) if rng.random() < .3 else None
            if first is not None: subsets[first] = list(range(nd))       # the entry list itself is one of the factors
            factors = []; ref = numpy.ones(shape)
            for j, w in enumerate(subsets):
                if j == first:
                    f, d = child, dense
                else:
                    sh = [shape[i] for i in w]
                    if w and rng.random() < .6:
                        m = rng.choice([0, 1, 2, 4]); t2 = [[rng.randrange(n) for n in sh] for _ in range(m)]; v2 = [rng.choice([1, -1, 2, 3]) for _ in range(m)]
                        f = scatter_expr(sh, t2, v2, name='f%d' % j); args['f%d' % j] = numpy.array(v2, dtype=float); d = py_dense(sh, t2, v2).astype(float)
                    else:
                        d = numpy.array([rng.randint(-3, 3) for _ in range(int(numpy.prod(sh)))], dtype=float).reshape(sh)
                        f = ev.Argument('f%d' % j, tuple(ev.constant(n) for n in sh), float); args['f%d' % j] = d
                factors.append(G.insert_axes(rng, f, w, shape))
                ref = ref * d.reshape([shape[i] if i in w else 1 for i in range(nd)])
            X = G.assoc(rng, factors, ev.Multiply)
            detail = '%dfactors' % nf
        elif op == 'Sum':
            X = ev.Sum(child); ref = dense.sum(-1)
        elif op == 'Add':
            _, t2, v2 = gen_entries(rng); t2 = [[rng.randrange(k) for k in shape] for _ in v2]
            flat2 = [int(numpy.ravel_multi_index(t, shape)) for t in t2]
            e2 = ev.Inflate(ev.Argument('w', (ev.constant(len(v2)),), float), ev.Constant(types.arraydata(numpy.array(flat2, dtype=int))), ev.constant(int(numpy.prod(shape))))
            for k in range(nd - 1):
                e2 = ev.Unravel(e2, ev.constant(shape[k]), ev.constant(int(numpy.prod(shape[k+1:]))))
            args['w'] = numpy.array(v2, dtype=float)
            X = ev.Add(types.frozenmultiset([child, e2])); ref = dense + py_dense(shape, t2, v2)
        elif op == 'Multiply3':   # three clusters on pairwise disjoint axes
            def vec(name):
                m = rng.choice([1, 2, 3]); k2 = rng.choice([1, 2, 4])
                t2 = [rng.randrange(m) for _ in range(k2)]; v2 = [rng.choice([1, -1, 2, 3]) for _ in range(k2)]
                args[name] = numpy.array(v2, dtype=float)
                return ev.Inflate(ev.Argument(name, (ev.constant(k2),), float), ev.Constant(types.arraydata(numpy.array(t2, dtype=int))), ev.constant(m)), py_dense([m], [[t] for t in t2], v2).astype(float), m
            B, dB, m = vec('w'); C, dC, q = vec('z')
            S = tuple(ev.constant(k) for k in shape)
            left = ev.appendaxes(child, (ev.constant(m), ev.constant(q)))
            mid = ev.prependaxes(ev.appendaxes(B, (ev.constant(q),)), S)
            right = ev.prependaxes(C, S + (ev.constant(m),))
            order = rng.choice([0, 1, 2])
            fs = [left, mid, right]; fs = fs[order:] + fs[:order]
            X = ev.Multiply(types.frozenmultiset([ev.Multiply(types.frozenmultiset(fs[:2])), fs[2]]))
            ref = dense[..., None, None] * dB[:, None] * dC
        else:   # Multiply: outer product of two sparse vectors/arrays on disjoint axes (cluster product)
            m = rng.choice([1, 2, 3]); k2 = rng.choice([0, 1, 2, 4])
            t2 = [rng.randrange(m) for _ in range(k2)]; v2 = [rng.choice([1, -1, 2, 3]) for _ in range(k2)]
            c2 = ev.Inflate(ev.Argument('w', (ev.constant(k2),), float), ev.Constant(types.arraydata(numpy.array(t2, dtype=int))), ev.constant(m))
            args['w'] = numpy.array(v2, dtype=float)
            d2 = py_dense([m], [[t] for t in t2], v2).astype(float)
            left = ev.InsertAxis(child, ev.constant(m))
            right = c2
            for k in shape: right = ev.InsertAxis(right, ev.constant(k))
            right = ev.Transpose(right, tuple(range(1, nd + 1)) + (0,))
            X = ev.Multiply(types.frozenmultiset([left, right])); ref = dense[..., None] * d2
        c.count('M:chunks:' + op); c.count('M:chunks:operand-ndim=%d' % nd)
        if detail: c.count('M:chunks:%s:%s' % (op, detail))
        c.case(('chunks', op, tuple(shape), tuple(map(tuple, tuples)), tuple(values)), nontrivial=len(values) > 0)
        replay = dict(op='_assparse:' + op, shape=shape, tuples=tuples, values=values, arguments={k: v.tolist() for k, v in args.items()}, reference=ref.tolist())
        def run():
            chunks = X._assparse
            return ev.eval_once(tuple(tuple(ch) for ch in chunks), arguments=args, _simplify=False, _optimize=False)
        k, val = X_guarded(run)
        if k != 'ok':
            nbad += 1
            c.failing_input('_assparse-raises:' + op, '%s._assparse on a sparse operand raises %r' % (op, val), replay); continue
        bad = judge_chunks(val, ref)
        if bad is not None:
            nbad += 1
            c.failing_input('_assparse-chunk-wrong:%s:%s' % (op, bad), 'the chunks of %s._assparse do not accumulate to %s of the dense operand (clause %s)' % (op, op, bad),
                            dict(replay, chunks=[[numpy.asarray(a).tolist() for a in ch] for ch in val])); continue
        c.traces += 1
    c.log('chunks: done')
    c.obligation('corr:_assparse-overrides(chunks_denote)', nbad == 0, 'correspondence', '%d real chunk lists accumulated exactly' % n)


def X_guarded(fn):
    return X.guarded(fn, 20)


def m_selftest(c, n):
    """negative tests: structured corruptions of valid data must be rejected, with the same clause, by the certified Lean checker
    and by the Python recomputation oracle (guards against a vacuous checker / oracle)"""
    reqs, meta = [], []
    for _ in range(n):
        shape, tuples, values = gen_entries(c.rng)
        mt, mv = py_merge(shape, tuples, values)
        dense = py_dense(shape, tuples, values)
        kind = c.rng.choice(['none', 'swap', 'dup', 'range', 'value', 'drop', 'extra', 'length'])
        t2, v2 = [list(t) for t in mt], list(mv)
        expect = 'ok'
        if kind == 'swap' and len(t2) >= 2:
            k = c.rng.randrange(len(t2) - 1); t2[k], t2[k+1] = t2[k+1], t2[k]; v2[k], v2[k+1] = v2[k+1], v2[k]; expect = 'fail:order'
        elif kind == 'dup' and t2:
            k = c.rng.randrange(len(t2)); t2.insert(k, list(t2[k])); v2.insert(k, 0); expect = 'fail:order'
        elif kind == 'range' and t2:
            k = c.rng.randrange(len(t2)); ax = c.rng.randrange(len(shape)); t2[k][ax] = shape[ax] + c.rng.randint(0, 1); expect = 'fail:range'
        elif kind == 'value' and t2:
            k = c.rng.randrange(len(t2)); v2[k] += c.rng.choice([1, -1, 2]); expect = 'fail:scatter'
        elif kind == 'drop' and any(v != 0 for v in v2):
            k = c.rng.choice([i for i, v in enumerate(v2) if v != 0]); del t2[k]; del v2[k]; expect = 'fail:scatter'
        elif kind == 'extra':
            free = [list(p) for p in itertools.product(*[range(s) for s in shape]) if list(p) not in t2]
            if free:
                p = c.rng.choice(free); pos = sum(1 for t in t2 if t < p); t2.insert(pos, p); v2.insert(pos, 3); expect = 'fail:scatter'
        elif kind == 'length' and t2:
            v2.append(1); expect = 'fail:length'
        reqs.append('coo|%s|%s|%s|%s' % (ints(shape), lists(t2), ints(v2), ints(dense.reshape(-1))))
        meta.append(('coo', kind, expect, shape, t2, v2, dense))
        if len(shape) == 2:
            rp = [sum(1 for t in mt if t[0] < i) for i in range(shape[0]+1)]; ci = [t[1] for t in mt]; v3 = list(mv)
            kind = c.rng.choice(['none', 'rp-first', 'rp-last', 'rp-mono', 'col-range', 'col-order', 'value', 'rp-length', 'shift'])
            expect = 'ok'
            if kind == 'rp-first': rp[0] = 1; expect = 'fail:rowptr-first'
            elif kind == 'rp-last': rp[-1] += 1; expect = 'fail:rowptr-last' if len(rp) > 1 else 'fail:rowptr-first'
            elif kind == 'rp-mono' and len(rp) >= 3 and rp[-1] >= 1:
                k = c.rng.randrange(1, len(rp)-1); rp[k] = rp[-1] + 1; expect = 'fail:rowptr-monotone'
            elif kind == 'col-range' and ci:
                ci[c.rng.randrange(len(ci))] = shape[1]; expect = 'fail:colidx-range'
            elif kind == 'col-order':
                rows = [i for i in range(shape[0]) if rp[i+1] - rp[i] >= 2]
                if rows:
                    i = c.rng.choice(rows); ci[rp[i]], ci[rp[i]+1] = ci[rp[i]+1], ci[rp[i]]; v3[rp[i]], v3[rp[i]+1] = v3[rp[i]+1], v3[rp[i]]; expect = 'fail:colidx-order'
            elif kind == 'value' and v3:
                v3[c.rng.randrange(len(v3))] += 1; expect = 'fail:scatter'
            elif kind == 'rp-length':
                rp.append(rp[-1]); expect = 'fail:rowptr-length'
            elif kind == 'shift' and len(rp) >= 3:
                # move one entry to the neighbouring row: structure stays valid, meaning changes
                ks = [k for k in range(1, len(rp)-1) if rp[k] < rp[k+1] and (rp[k] + 1 == rp[k+1] or True)]
                ks = [k for k in ks if v3[rp[k]] != 0 and (rp[k] == rp[k-1] or ci[rp[k]-1] < ci[rp[k]])]
                if ks:
                    k = c.rng.choice(ks); rp[k] += 1; expect = 'fail:scatter'
            reqs.append('csr|%d|%d|%s|%s|%s|%s' % (shape[0], shape[1], ints(rp), ints(ci), ints(v3), ints(dense.reshape(-1))))
            meta.append(('csr', kind, expect, shape, (rp, ci), v3, dense))
    ans = yield reqs
    nbad = 0
    for (form, kind, expect, shape, idx, vals, dense), a in zip(meta, ans):
        if form == 'coo':
            py = py_check_coo(numpy.array(vals, dtype=float), [numpy.array([t[k] for t in idx], dtype=int) for k in range(len(shape))], shape, dense)
        else:
            py = py_check_csr(numpy.array(vals, dtype=float), numpy.array(idx[0], dtype=int), numpy.array(idx[1], dtype=int), shape[1], dense)
        py = 'ok' if py is None else 'fail:' + py
        c.count('M:selftest:%s:%s' % (form, expect)); c.case(('selftest', form, kind, tuple(shape), repr(idx), tuple(vals)), nontrivial=expect != 'ok')
        if a != expect or py != expect:
            nbad += 1
            c.broken_no_input('selftest:checkers', 'the certified Lean checker (%s) or the Python oracle (%s) does not give the expected verdict %s on %s data corrupted by %s' % (a, py, expect, form, kind),
                              dict(form=form, kind=kind, shape=shape, indices=idx, values=vals, dense=dense.tolist(), lean=a, python=py, expect=expect))
    c.obligation('selftest:checkers-reject-corrupted-data', nbad == 0, 'correspondence', '%d verdicts (valid data accepted, each clause violated in turn)' % len(meta))


def m_function(c, n):
    """function.as_coo / as_csr through function.eval on small FEM integrals, and the consumers matrix.assemble_csr,
    solver.System (block jacobian) and Topology.project; dense reference = dense evaluation of the same integral"""
    import treelog
    from nutils import mesh, function, matrix, solver
    TOL = 1e-10
    nbad = 0
    def close(a, b):
        a, b = numpy.asarray(a, dtype=float), numpy.asarray(b, dtype=float)
        return a.shape == b.shape and (a.size == 0 or abs(a - b).max() <= TOL * max(1., abs(a).max(), abs(b).max()))
    yield []
    with treelog.set(treelog.NullLog()), matrix.backend('numpy'):
        for _ in range(n):
            rng = c.rng
            kind = rng.choice(['rect1', 'rect2', 'rect2', 'tri'])
            if kind == 'rect1':
                domain, geom = mesh.rectilinear([numpy.linspace(0, 1, rng.choice([2, 3, 5]))])
            elif kind == 'rect2':
                domain, geom = mesh.rectilinear([numpy.linspace(0, 1, rng.choice([2, 3, 4])), numpy.linspace(0, 2, rng.choice([2, 3]))])
            else:
                domain, geom = mesh.unitsquare(rng.choice([1, 2]), 'triangle')
            btype = rng.choice(['std', 'std', 'spline', 'discont']) if kind != 'tri' else rng.choice(['std', 'discont'])
            degree = rng.choice([1, 2]) if btype != 'discont' else rng.choice([0, 1])
            basis = domain.basis(btype, degree=degree)
            basis2 = domain.basis('discont', degree=0)
            J = function.J(geom)
            x0 = geom[0]
            form = rng.choice(['mass', 'mass', 'stiff', 'load', 'scalar', 'rect', 'tensor3', 'boundary-mass', 'weighted'])
            if form == 'mass': f = domain.integral(basis[:, None] * basis * J, degree=2*degree)
            elif form == 'stiff': f = domain.integral((function.grad(basis, geom)[:, None] * function.grad(basis, geom)).sum(-1) * J, degree=2*degree)
            elif form == 'load': f = domain.integral(basis * (1 + x0) * J, degree=degree + 1)
            elif form == 'scalar': f = domain.integral((1 + x0) * J, degree=1)
            elif form == 'rect': f = domain.integral(basis[:, None] * basis2 * J, degree=degree)
            elif form == 'tensor3': f = domain.integral(basis[:, None, None] * basis2[None, :, None] * basis2[None, None, :] * J, degree=degree)
            elif form == 'boundary-mass': f = domain.boundary.integral(basis[:, None] * basis * function.J(geom), degree=2*degree)
            else: f = domain.integral(basis[:, None] * basis * function.field('w', basis2) * J, degree=2*degree)
            args = {'w': numpy.array([rng.randint(-4, 4) / 2. for _ in range(len(basis2))])} if form == 'weighted' else {}
            tag = '%s:%s%d:%s' % (kind, btype, degree, form)
            c.count('M:function:' + form); c.count('M:function:mesh:' + kind); c.count('M:function:basis:%s%d' % (btype, degree))
            replay = dict(op='function.as_coo/as_csr', mesh=kind, basis=btype, degree=degree, form=form, arguments={k: v.tolist() for k, v in args.items()})
            try:
                dense, = function.eval([f], args)
            except Exception as e:
                c.count('M:function:dense-eval-raises:' + type(e).__name__); continue
            c.case(('function', tag, len(basis)), nontrivial=f.ndim > 0)
            try:
                coo = function.eval(function.as_coo(f), args)
                v = py_check_coo(coo[0], coo[1:], f.shape, dense, TOL)
            except Exception as e:
                v = 'raises %s: %s' % (type(e).__name__, str(e)[:100]); coo = ()
            if v is not None:
                nbad += 1
                c.failing_input('function.as_coo-wrong:' + v.split(':')[0].split(' ')[0], 'function.as_coo evaluated through function.eval does not denote the dense integral (%s; %s)' % (v, tag),
                                dict(replay, clause=v, coo=[numpy.asarray(a).tolist() for a in coo], dense=dense.tolist())); continue
            c.traces += 1
            if f.ndim == 2:
                try:
                    csr = function.eval(function.as_csr(f), args)
                    v = py_check_csr(csr[0], csr[1], csr[2], f.shape[1], dense, TOL)
                except Exception as e:
                    v = 'raises %s: %s' % (type(e).__name__, str(e)[:100]); csr = ()
                if v is not None:
                    nbad += 1
                    c.failing_input('function.as_csr-wrong:' + v.split(':')[0].split(' ')[0], 'function.as_csr evaluated through function.eval does not denote the dense integral (%s; %s)' % (v, tag),
                                    dict(replay, clause=v, csr=[numpy.asarray(a).tolist() for a in csr], dense=dense.tolist())); continue
                try:
                    A = matrix.assemble_csr(*csr, f.shape[1]).export('dense')
                    okA = close(A, dense)
                except Exception as e:
                    okA, A = False, numpy.array(float('nan'))
                    replay['consumer_exception'] = '%s: %s' % (type(e).__name__, e)
                c.count('M:function:consumer:assemble_csr')
                if not okA:
                    nbad += 1
                    c.failing_input('consumer-assemble_csr-wrong', 'matrix.assemble_csr of the evaluated function.as_csr data does not export the dense integral (%s)' % tag,
                                    dict(replay, matrix=numpy.asarray(A).tolist(), dense=dense.tolist())); continue
            # consumers: solver.System block jacobian, Topology.project
            if form in ('mass', 'stiff') and rng.random() < .5:
                u = function.field('u', basis); p = function.field('p', basis2)
                gu = function.grad(u, geom)
                F = domain.integral((u**2 * (1 + x0) + u * p + 3 * p**2 + (gu**2).sum(-1) + (u**3 if rng.random() < .5 else 0)) * J, degree=3*max(degree, 1))
                trial = rng.choice(['u,p', 'p,u', 'u'])
                a2 = {'u': numpy.array([rng.randint(-4, 4) / 4. for _ in range(len(basis))]), 'p': numpy.array([rng.randint(-4, 4) / 2. for _ in range(len(basis2))])}
                try:
                    jac = solver.System(F, trial=trial).assemble_jacobian(a2).export('dense')
                    names = trial.split(',')
                    H = numpy.block([[function.eval([function.derivative(function.derivative(F, a), b)], a2)[0] for b in names] for a in names])
                    ok = close(jac, H)
                except Exception as e:
                    ok, jac, H = False, numpy.zeros(0), numpy.zeros(0); replay['consumer_exception'] = '%s: %s' % (type(e).__name__, e)
                c.count('M:function:consumer:System-jacobian:' + trial)
                if not ok:
                    nbad += 1
                    c.failing_input('consumer-System-jacobian-wrong', 'solver.System block jacobian (as_csr of each block, assemble_block_csr) differs from the dense second derivative (%s, trial=%s)' % (tag, trial),
                                    dict(replay, trial=trial, arguments=dict((k, v.tolist()) for k, v in a2.items()), jacobian=jac.tolist(), dense=H.tolist())); continue
            if form == 'mass' and btype != 'discont' and rng.random() < .5:
                try:
                    xp = domain.project(1 + x0, onto=basis, geometry=geom, degree=2*degree)
                    b, = function.eval([domain.integral(basis * (1 + x0) * J, degree=2*degree)])
                    ok = close(xp, numpy.linalg.solve(dense, b))
                except Exception as e:
                    ok = False; replay['consumer_exception'] = '%s: %s' % (type(e).__name__, e)
                c.count('M:function:consumer:project')
                if not ok:
                    nbad += 1
                    c.failing_input('consumer-project-wrong', 'Topology.project (function.as_csr -> assemble_csr -> solve) differs from the dense least squares solution (%s)' % tag, replay); continue
    c.log('function: done')
    c.obligation('corr:function.as_coo/as_csr+consumers', nbad == 0, 'correspondence', '%d FEM integrals evaluated sparse and dense' % n)


def rerun_known(c):
    """every open known finding of this property is re-run from its recorded minimal input (field `pickled` of the entry: the pickled
    (expression, arguments), `mode`: coo | csr | raw; or a builder registered in KNOWN_INPUTS under the entry's signature) and reported:
    one KNOWN-FINDING line per entry that still fails, silence once it is fixed"""
    for entry in c.findings:
        if entry.get('status') != 'open': continue
        try:
            if entry.get('signature') in KNOWN_INPUTS:
                e, args, mode = KNOWN_INPUTS[entry['signature']]()
            elif entry.get('pickled'):
                e, args = pickle.loads(base64.b64decode(entry['pickled'])); mode = entry.get('mode', 'coo')
            else:
                c.log('note: open known finding %r has no recorded input; it is reported when the streams hit its signature' % entry.get('id')); continue
        except Exception as ex:
            raise Infra('recorded input of known finding %r cannot be rebuilt: %r' % (entry.get('id'), ex))
        k0, _ = X.real_eval(e, args)
        kx, ext = extract(e, mode)
        if kx != 'ok':
            still = k0 == 'ok' and not (kx == 'exception' and 'caught in a loop' in str(ext) or kx == 'hang')
        else:
            kr, parts = real_parts(mode, ext, args)
            still = kr != 'ok' or (finite(parts) and py_verdict(mode, parts, 0. if is_exact(e) else 1e-9) is not None)
        c.case(('known', entry.get('id')))
        c.report_known_still_failing(entry, still)


KNOWN_INPUTS = {}   # signature of an open known_findings.json entry -> function returning (expression, arguments, mode)


def run_batched(c, streams):
    """every stream is a generator that yields its Lean requests once and receives the answers: one driver process for all.
    Streams without requests (pure real-code + exact-oracle streams) do their work in the main thread while the driver is busy."""
    import threading
    reqs = [next(g) for g in streams]
    c.log('generated %s requests' % [len(r) for r in reqs])
    flat = [r for rs in reqs for r in rs]
    def resume(g, answers):
        try:
            g.send(answers)
        except StopIteration:
            pass
        else:
            raise Infra('stream did not finish after receiving its answers')
    result = {}
    def drive():
        import time
        t0 = time.time()
        try:
            result['ans'] = c.model(flat)
        except BaseException as ex:
            result['exc'] = ex
        result['t'] = time.time() - t0
    t = threading.Thread(target=drive)
    t.start()
    try:
        for g, rs in zip(streams, reqs):
            if not rs: resume(g, [])
        c.log('streams on the real code only: done')
    finally:
        t.join()     # c.model kills the driver's process group on timeout: nothing is left behind
    if 'exc' in result:
        raise result['exc']
    ans = result['ans']
    c.log('Lean driver answered %d requests in %.1fs' % (len(ans), result['t']))
    pos = 0
    for g, rs in zip(streams, reqs):
        if rs: resume(g, ans[pos:pos+len(rs)])
        pos += len(rs)


def run(c):
    c.rule = ('random well-typed evaluable DAGs (nvh.genexpr; 75% restricted to the classes with their own _assparse, float and int, ndim 0..3, axis lengths 0..3, nested '
              'loops) and FEM-like element loops with element-dependent block sizes (LoopSum of Inflate of outer products, LoopConcatenate of variable chunks); '
              'structured higher-rank expressions (nvh.c05_gen: rank 2..4 with pairwise different axis lengths; products of 2..5 factors on arbitrary axis subsets, '
              'all 25 ordered triples of axis subsets of a matrix in every run; Inflate with dofmaps of 0..4 axes; element loops of rank 1..4 with up to 4 element '
              'dependent block lengths; an exception of the sparse extraction of a simplified tree whose dense evaluation succeeds is a failing input); '
              'sparse data extracted by the real code in three ways (simplified.assparse, as_csr, raw assparse); non-trivial = ndim > 0 and at least one stored entry; '
              'distinct by nutils hash of the tree and extraction mode')
    c.assumptions += ['complex dtype is not generated', 'integer arguments, axis lengths, loop lengths are sampled; real arguments are symbolic in the Lean evaluation',
                      'equal polynomial normal forms => equal values for all real arguments (Props/Poly); the Lean evaluator and checkers are executed, the checkers are proved sound (Props/C05)',
                      'a symbolic failure is never a verdict by itself: fall back to the exact sample point, then to the real evaluation + exact recomputation']
    if getattr(c, 'replay', None) and 'pickled' in c.replay:
        # replay of a recorded failing expression: real extraction + real evaluation + exact oracle only
        e, args = pickle.loads(base64.b64decode(c.replay['pickled']))
        mode = c.replay.get('mode', 'coo')
        tol = 0. if is_exact(e) else 1e-9
        kx, ext = extract(e, mode)
        c.case((e.__nutils_hash__, mode))
        if kx != 'ok':
            c.failing_input(c.replay.get('signature', 'replay'), 'replay: sparse extraction raises %r' % ext, dict(c.replay)); return
        kr, parts = real_parts(mode, ext, args)
        verdict = py_verdict(mode, parts, tol) if kr == 'ok' and finite(parts) else 'evaluation: %s %r' % (kr, parts)
        c.log('replay verdict:', verdict or 'ok')
        c.obligation('replay', verdict is None, 'correspondence', str(verdict))
        if verdict is not None:
            c.failing_input(c.replay.get('signature', 'replay'), 'replay: clause %s fails' % verdict, dict(c.replay))
        return
    if os.environ.get('C05_DEV_NOAUDIT'):
        # development aid for mutation screening only: skips the proof build/audit and says so in the evidence
        broken = []; c.assumptions.append('DEV MODE: proofs not rebuilt / audited in this run'); c.obligation('dev-mode-no-audit', True, 'correspondence', 'not a verification run')
    elif c.tier == 'quick':
        # Props/C05Eval.lean (the only Mathlib-dependent theorem, checkCOO_sound_eval) is rebuilt in every run; its axiom audit,
        # which has to load Mathlib, is done in the thorough tier
        broken = c.build_and_audit()
        ok, out = c.build(['NutilsVerif.Props.C05Eval'])
        c.obligation('NutilsVerif.C05.checkCOO_sound_eval', ok, 'theorem', 'lake build NutilsVerif.Props.C05Eval (axiom audit in the thorough tier)')
        if not ok: broken.append('lake build NutilsVerif.Props.C05Eval failed')
    else:
        broken = c.build_and_audit(extra_props=['C05Eval'])
    c.log('proofs built and audited')
    quick = c.tier == 'quick'
    # optional (C05_POOL=<n>, default off: on the loaded 16-core development machine it gave no gain in wall time): n worker processes
    # pre-screen the real-evaluation-only stream; forked here, before the thread that waits for the Lean driver exists
    import multiprocessing
    pool = multiprocessing.get_context('fork').Pool(int(os.environ['C05_POOL'])) if os.environ.get('C05_POOL', '0') not in ('', '0') else None
    try:
        streams = [m_compress(c, 300 if quick else 20000), m_accumulate(c, 100 if quick else 3000), m_unique(c, 60 if quick else 2000),
                   m_assparse(c, 60 if quick else 2000), m_blockpos(c, 30 if quick else 600), m_chunks(c, 150 if quick else 3000), m_selftest(c, 80 if quick else 3000),
                   m_function(c, 25 if quick else 300), v_stream(c, 60 if quick else 1000, 4 if quick else 5),
                   v_stream(c, 0, 4 if quick else 5, 240 if quick else 3000, prefix='S', late=True, pool=pool,
                            struct=dict(prod=60, orders2=1, inflate=40, loop=50, dag5=40) if quick else dict(prod=800, orders2=4, orders3=2, inflate=800, loop=600, dag5=800))]
        run_batched(c, streams)
    finally:
        if pool is not None:
            pool.terminate(); pool.join()
    rerun_known(c)
    for b in broken:
        c.broken_no_input('proof', b, dict(detail=b))
