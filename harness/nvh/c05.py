"""C05 — sparse extraction denotes exactly the dense array.

Ties
----
(V) certified validation.  For generated well-typed evaluable DAGs (nvh.genexpr, biased towards the classes that have
    their own `_assparse`, plus FEM-like element loops with element-dependent block sizes) the REAL sparse trees
    `e.simplified.assparse`, `evaluable.as_csr(e)` and the raw `e.assparse` are serialised together with the dense
    expression; the Lean specification evaluator (Model/Expr.lean) evaluates all of them — index parts concretely,
    value parts as polynomials in the real-valued arguments — and the certified checkers `C05.cooClauses` /
    `C05.csrClauses` (sound and complete by Props/C05.lean) decide the property, for all real argument values at once
    (symbolic request) and exactly at the sampled dyadic point (concrete request).
    Independently the real sparse tuple is evaluated with the real compiled code and checked against the real dense
    value by exact recomputation in Python (indices in range, strictly lexicographically increasing, CSR
    structure, scatter == dense): this covers the `evalf`s of ArgSort/UniqueMask/UniqueInverse/Find/CompressIndices.
(M) mechanism correspondence.  `numeric.compress_indices`, `numeric.accumulate`, `evaluable.unique`, the merge of
    `Array.assparse` and `evaluable.as_csr` on generated integer data against the Lean model (Model/C05.lean) and its
    specification functions; `function.as_coo/as_csr` through `function.eval` on small FEM integrals and through the
    consumers `matrix.assemble_csr`, `solver.System` (block jacobian) and `Topology.project`.
"""
import base64, pickle, collections, itertools, json, numpy
from fractions import Fraction
from nutils import evaluable as ev, types
from . import genexpr, ser, shrink, exprcheck as X
from .common import Infra

STRUCTURAL = ['InsertAxis', 'Transpose', 'Add', 'Multiply', 'Sum', 'Inflate', 'Diagonalize', 'Ravel', 'Unravel', 'Unravel0', 'Take', 'TakeDiag',
              'LoopSum', 'LoopConcatenate', 'Negative', 'IntToFloat', 'PowerInt']


def pack(e, args):
    return base64.b64encode(pickle.dumps((e, args))).decode()


# ---------------------------------------------------------------------------------------------------------------------
# exact recomputation oracle on evaluated data

def frac(x):
    if isinstance(x, (bool, numpy.bool_)): return Fraction(int(x))
    if isinstance(x, (int, numpy.integer)): return Fraction(int(x))
    return Fraction(float(x))


def lex_lt(a, b):
    return tuple(a) < tuple(b)


def py_check_coo(values, indices, shape, dense, tol=0.):
    """returns None when the COO data denote `dense` exactly (Fractions), else the name of the first failed clause.
    tol > 0: values may differ by tol * scale (only used when the expression contains inexact float operations)."""
    values = numpy.asarray(values); dense = numpy.asarray(dense)
    shape = tuple(int(n) for n in shape)
    if values.ndim != 1 or any(numpy.asarray(i).ndim != 1 or numpy.asarray(i).dtype.kind not in 'iu' for i in indices):
        return 'format'
    if any(len(i) != len(values) for i in indices) or len(indices) != len(shape):
        return 'length'
    if tuple(dense.shape) != shape:
        return 'shape'
    tuples = [tuple(int(i[k]) for i in indices) for k in range(len(values))]
    if any(not (0 <= t < n) for tup in tuples for t, n in zip(tup, shape)):
        return 'range'
    if any(not a < b for a, b in zip(tuples, tuples[1:])):
        return 'order'
    listed = {}
    for t, v in zip(tuples, values):
        listed[t] = listed.get(t, 0) + frac(v)    # additive meaning (no duplicates at this point)
    scale = max([1.] + [abs(float(v)) for v in values] + [abs(float(v)) for v in dense.reshape(-1)]) if tol else 0
    for pos in itertools.product(*[range(n) for n in shape]):
        d = frac(dense[pos]); l = listed.get(pos, Fraction(0))
        if d != l and not (tol and abs(float(d - l)) <= tol * scale):
            return 'scatter'
    return None


def py_check_csr(values, rowptr, colidx, ncols, dense, tol=0.):
    values = numpy.asarray(values); dense = numpy.asarray(dense); rowptr = numpy.asarray(rowptr); colidx = numpy.asarray(colidx)
    if values.ndim != 1 or rowptr.ndim != 1 or colidx.ndim != 1 or rowptr.dtype.kind not in 'iu' or colidx.dtype.kind not in 'iu':
        return 'format'
    rp = [int(x) for x in rowptr]; ci = [int(x) for x in colidx]; ncols = int(ncols)
    if dense.ndim != 2 or len(rp) != dense.shape[0] + 1: return 'rowptr-length'
    if rp[0] != 0: return 'rowptr-first'
    if any(a > b for a, b in zip(rp, rp[1:])): return 'rowptr-monotone'
    if rp[-1] != len(values): return 'rowptr-last'
    if len(ci) != len(values): return 'colidx-length'
    if any(not (0 <= j < ncols) for j in ci): return 'colidx-range'
    if dense.shape[1] != ncols: return 'shape'
    scale = max([1.] + [abs(float(v)) for v in values] + [abs(float(v)) for v in dense.reshape(-1)]) if tol else 0
    for i in range(dense.shape[0]):
        cols = ci[rp[i]:rp[i+1]]
        if any(not a < b for a, b in zip(cols, cols[1:])): return 'colidx-order'
        row = {}
        for j, v in zip(cols, values[rp[i]:rp[i+1]]):
            row[j] = row.get(j, 0) + frac(v)
        for j in range(ncols):
            d = frac(dense[i, j]); l = row.get(j, Fraction(0))
            if d != l and not (tol and abs(float(d - l)) <= tol * scale):
                return 'scatter'
    return None


# ---------------------------------------------------------------------------------------------------------------------
# generators

INEXACT = ('Sin', 'Cos', 'Tan', 'Exp', 'ArcTan', 'SinH', 'CosH', 'TanH', 'Reciprocal', 'Inverse', 'Power', 'Legendre', 'Log', 'Sqrt')


def is_exact(e):
    """float evaluation of e on dyadic data is exact (no division / transcendental function); Power with small natural exponents is exact"""
    for n in shrink.all_nodes(e):
        name = type(n).__name__
        if name == 'Power':
            p = n.power
            if not (isinstance(p, ev.Constant) and (numpy.asarray(p.value) >= 0).all() and (numpy.asarray(p.value) == numpy.round(p.value)).all()):
                return False
        elif name in INEXACT or name in ('Determinant',) and False:
            return False
    return True


def random_dag(rng, maxdepth):
    depth = rng.choice(range(1, maxdepth+1))
    dtype = rng.choice([float, float, float, int, int])
    allow = None if rng.random() < .25 else STRUCTURAL
    return genexpr.random_case(rng, depth=depth, dtype=dtype, allow=allow)


def fem_case(rng):
    """element loop with element-dependent block sizes: LoopSum of Inflate of per-element blocks (1-D, 2-D, 0-D),
    LoopConcatenate of variable-length chunks; values depend on a real argument (symbolic in Lean)"""
    nel = rng.choice([0, 1, 2, 3, 3, 4])
    sizes = [rng.choice([0, 1, 2, 2, 3]) for _ in range(nel)]
    sizes2 = [rng.choice([1, 2, 3, 0]) for _ in range(nel)]
    N = rng.choice([1, 2, 3, 4, 5]); M = rng.choice([1, 2, 3, 4])
    def table(sz, n):
        t = []
        for k in sz:
            t += rng.sample(range(n), k) if k <= n and rng.random() < .6 else [rng.randrange(n) for _ in range(k)]
        return t
    args = {}
    idx = ev.loop_index('e%d' % rng.getrandbits(20), ev.constant(nel))
    def per_element(sz, n, name):
        off = numpy.cumsum([0] + sz)
        ni = ev.Take(ev.Constant(types.arraydata(numpy.array(sz + [0], dtype=int))), idx)
        oi = ev.Take(ev.Constant(types.arraydata(numpy.array(off, dtype=int))), idx)
        sl = ev.Range(ni) + ev.InsertAxis(oi, ni)
        tab = table(sz, n)
        dofs = ev.Take(ev.Constant(types.arraydata(numpy.array(tab + [0], dtype=int))), sl)
        args[name] = numpy.array([rng.randint(-8, 8) / rng.choice([1., 2., 4.]) for _ in range(int(off[-1]) + 1)])
        coeffs = ev.Take(ev.Argument(name, (ev.constant(int(off[-1]) + 1),), float), sl)
        if rng.random() < .5:
            coeffs = coeffs * ev.InsertAxis(ev.IntToFloat(idx + ev.constant(1)), ni)
        return ni, dofs, coeffs
    n1, dofs1, c1 = per_element(sizes, N, 'u')
    n2, dofs2, c2 = per_element(sizes2, M, 'w')
    kind = rng.choice(['vec', 'mat', 'mat', 'mat-fixed', 'scalar', 'concat', 'concat-inflate', 'mat-diag', 'nested'])
    if kind == 'vec':
        e = ev.loop_sum(ev.Inflate(c1, dofs1, ev.constant(N)), idx)
    elif kind == 'mat':
        block = ev.insertaxis(c1, 1, n2) * ev.insertaxis(c2, 0, n1)
        e = ev.loop_sum(ev._inflate(ev._inflate(block, dofs1, ev.constant(N), 0), dofs2, ev.constant(M), 1), idx)
    elif kind == 'mat-fixed':
        k = rng.choice([1, 2, 3])
        args['f'] = numpy.array([rng.randint(-4, 4) / 2. for _ in range(k)])
        block = ev.insertaxis(c1, 1, ev.constant(k)) * ev.insertaxis(ev.Argument('f', (ev.constant(k),), float), 0, n1)
        e = ev.loop_sum(ev._inflate(block, dofs1, ev.constant(N), 0), idx)
        if rng.random() < .5:
            e = ev.transpose(e, (1, 0))
    elif kind == 'scalar':
        e = ev.loop_sum(ev.Sum(c1 * c1), idx)
    elif kind == 'concat':
        e = ev.loop_concatenate(c1, idx)
    elif kind == 'concat-inflate':
        total = sum(sizes)
        perm = list(range(total)); rng.shuffle(perm)
        e = ev.loop_concatenate(c1, idx)
        e = ev.Inflate(e, ev.Constant(types.arraydata(numpy.array([p % N for p in perm], dtype=int))), ev.constant(N)) if total else ev.Diagonalize(e)
    elif kind == 'mat-diag':
        e = ev.loop_sum(ev.Diagonalize(ev.Inflate(c1, dofs1, ev.constant(N))), idx)
    else:
        # nested loop: inner loop over a fixed range inside the element loop
        j = ev.loop_index('j%d' % rng.getrandbits(20), ev.constant(rng.choice([1, 2])))
        inner = ev.loop_sum(c1 * ev.InsertAxis(ev.IntToFloat(j + ev.constant(1)), n1), j)
        e = ev.loop_sum(ev.Inflate(inner, dofs1, ev.constant(N)), idx)
    return e, args, 'fem:' + kind


# ---------------------------------------------------------------------------------------------------------------------
# sparse extraction of one expression by the real code

def extract(e, mode):
    """mode 'coo' : e.simplified.assparse · 'raw' : e.assparse · 'csr' : evaluable.as_csr(e).
    returns ('ok', (dense_expr, parts...)) | ('exception'|'hang', info)"""
    def run():
        if mode == 'coo':
            s = e.simplified
            values, indices, shape = s.assparse
            return s, values, tuple(indices), tuple(shape)
        if mode == 'raw':
            values, indices, shape = e.assparse
            return e, values, tuple(indices), tuple(shape)
        values, rowptr, colidx, ncols = ev.as_csr(e)
        return e.simplified, values, rowptr, colidx, ncols
    return X.guarded(run, 20)


def roots_of(mode, ext, e):
    if mode in ('coo', 'raw'):
        dense, values, indices, shape = ext
        return [dense, values, *indices, *shape, e], dict(kind='coo', ndim=len(indices))
    dense, values, rowptr, colidx, ncols = ext
    return [dense, values, rowptr, colidx, ncols, e], dict(kind='csr')


def real_parts(mode, ext, args):
    """evaluate the real sparse trees and the dense expression with the real compiled code (no simplification, no
    optimisation: the trees are evaluated as they are)"""
    def run():
        with numpy.errstate(all='ignore'):
            if mode in ('coo', 'raw'):
                dense, values, indices, shape = ext
                return ev.eval_once((dense, values, tuple(indices), tuple(shape)), arguments=args, _simplify=False, _optimize=False)
            dense, values, rowptr, colidx, ncols = ext
            return ev.eval_once((dense, values, rowptr, colidx, ncols), arguments=args, _simplify=False, _optimize=False)
    return X.guarded(run, 30)


def py_verdict(mode, parts, tol):
    if mode in ('coo', 'raw'):
        dense, values, indices, shape = parts
        return py_check_coo(values, indices, shape, dense, tol)
    dense, values, rowptr, colidx, ncols = parts
    return py_check_csr(values, rowptr, colidx, ncols, dense, tol)


def finite(parts):
    def ok(a):
        if isinstance(a, (tuple, list)): return all(ok(x) for x in a)
        a = numpy.asarray(a)
        return a.dtype.kind not in 'fc' or bool(numpy.isfinite(a).all())
    return ok(parts)


# ---------------------------------------------------------------------------------------------------------------------
# (V) stream

def signature(mode, clause, e, args, tol):
    """root-cause signature: mechanism + failed clause + class skeleton of the shrunk expression"""
    def fails(e2, a2):
        k, ext = extract(e2, mode)
        if k != 'ok': return False
        k, parts = real_parts(mode, ext, a2)
        return k == 'ok' and finite(parts) and py_verdict(mode, parts, tol) is not None
    try:
        small, sargs = shrink.shrink(e, args, fails, budget=40)
    except Exception:
        small, sargs = e, args
    return '%s-wrong:%s:%s' % ({'coo': 'assparse', 'raw': 'assparse', 'csr': 'as_csr'}[mode], clause, shrink.skeleton(small)), small, sargs


def v_stream(c, ncases, maxdepth):
    cases, reqs = [], []
    out = collections.Counter()
    hits = collections.Counter()
    for i in range(ncases):
        try:
            if i % 3 == 2:
                e, args, tag = fem_case(c.rng)
            else:
                e, g = random_dag(c.rng, maxdepth); args = g.args; tag = 'dag'
                for k, v in g.hits.items(): hits['gen:' + k] += v
        except Exception as ex:
            out['generator-exception:' + type(ex).__name__] += 1; continue
        out['generated:' + tag] += 1
        k0, v0 = X.real_eval(e, args)
        if k0 != 'ok':
            out['dense-not-evaluable:' + k0] += 1
            continue
        exact = is_exact(e)
        tol = 0. if exact else 1e-9
        modes = ['coo'] + (['csr'] if e.ndim == 2 else []) + (['raw'] if c.rng.random() < .6 else [])
        for mode in modes:
            kx, ext = extract(e, mode)
            if kx != 'ok':
                if mode != 'raw' and kx == 'exception' and 'caught in a loop' in str(ext) or kx == 'hang':
                    out['%s:simplify-nonterminating(C01)' % mode] += 1; continue
                out['%s:extract-%s' % (mode, kx)] += 1
                c.case((e.__nutils_hash__, mode))
                c.failing_input('sparse-extraction-raises:%s:%s:%s' % (mode, type(ext).__name__, shrink.skeleton(e)),
                                'sparse extraction (%s) raises %s: %s while the dense expression evaluates' % (mode, type(ext).__name__, str(ext)[:120]),
                                dict(mode=mode, expr=X.describe(e, args), pickled=pack(e, args)))
                continue
            kr, parts = real_parts(mode, ext, args)
            roots, spec = roots_of(mode, ext, e)
            nroots = len(roots)
            float_args = {k: v for k, v in args.items() if numpy.asarray(v).dtype.kind == 'f'}
            try:
                r1, s1 = ser.request(roots, args, cmp=[(0, nroots-1)])
                r2, _ = ser.request(roots, {k: v for k, v in args.items() if k not in float_args}, symbolic={k: numpy.asarray(v).shape for k, v in float_args.items()}, cmp=[(0, nroots-1)])
            except ValueError:
                out[mode + ':not-serialisable'] += 1; continue
            for cls in s1.classes: hits['sparse-tree:' + cls] += 1
            j1 = json.loads(r1); j1['c05'] = dict(spec, results=True)
            j2 = json.loads(r2); j2['c05'] = dict(spec, results=False)
            cases.append(dict(e=e, args=args, tag=tag, mode=mode, ext=ext, kr=kr, parts=parts, tol=tol, dense0=v0))
            reqs += [json.dumps(j1, separators=(',', ':')), json.dumps(j2, separators=(',', ':'))]
    c.log('V: %d requests for the Lean evaluator' % len(reqs))
    ans = []
    for a in c.model(reqs):
        if a.startswith('bad-request'):
            raise Infra('C05 driver rejected a request: ' + a[:300])
        ans.append(json.loads(a))
    nsym = nconc = nreal = nspec = nspec_bad = 0
    for case, a1, a2 in zip(cases, ans[0::2], ans[1::2]):
        e, args, mode, parts, tol = case['e'], case['args'], case['mode'], case['parts'], case['tol']
        key = (e.__nutils_hash__, mode)
        nnz = a1.get('nnz', 0)
        c.case(key, nontrivial=e.ndim > 0 and nnz > 0)
        out['%s:lean-concrete:%s' % (mode, a1['verdict'].split(':')[0] if a1['verdict'].startswith('error') else a1['verdict'])] += 1
        out['%s:lean-symbolic:%s' % (mode, a2['verdict'].split(':')[0] if a2['verdict'].startswith('error') else a2['verdict'])] += 1
        if a1['verdict'].startswith('error:unsupported'): out['unsupported:' + a1['verdict'].split(':', 2)[2]] += 1
        out['%s:ndim=%d' % (mode, e.ndim)] += 1
        if nnz == 0: out[mode + ':nnz=0'] += 1
        replay = dict(mode=mode, tag=case['tag'], expr=X.describe(e, args), pickled=pack(e, args), lean_concrete=a1['verdict'], lean_symbolic=a2['verdict'])
        # ---- (1) the real compiled code on the real sparse trees, exact recomputation oracle
        real = None
        if case['kr'] == 'ok' and finite(parts):
            real = py_verdict(mode, parts, tol)
            nreal += 1; c.traces += 1
            out['%s:real:%s' % (mode, real or 'ok')] += 1
            if real is not None:
                sig, small, sargs = signature(mode, real, e, args, tol)
                c.failing_input(sig, 'the evaluated sparse data (%s) do not denote the dense array: clause %s fails' % (mode, real),
                                dict(replay, expr=X.describe(small, sargs), pickled=pack(small, sargs), original=X.describe(e, args), clause=real,
                                     real=[numpy.asarray(p).tolist() if not isinstance(p, tuple) else [numpy.asarray(q).tolist() for q in p] for p in parts]))
                continue
        elif case['kr'] in ('exception', 'hang'):
            out['%s:real-eval-%s:%s' % (mode, case['kr'], type(parts).__name__)] += 1
            c.failing_input('sparse-evaluation-raises:%s:%s:%s' % (mode, type(parts).__name__, shrink.skeleton(e)),
                            'evaluating the sparse data (%s) raises %s: %s while the dense expression evaluates' % (mode, type(parts).__name__, str(parts)[:120]), replay)
            continue
        else:
            out[mode + ':real-nonfinite'] += 1
        # ---- (2) spec-eval correspondence on every root (validates Model/Expr on sparse trees)
        if real is None and case['kr'] == 'ok' and finite(parts) and 'results' in a1:
            flat = []
            for p in parts: flat += list(p) if isinstance(p, tuple) else [p]
            for k, (res, val) in enumerate(zip(a1['results'], flat)):
                m = X.compare_result(res, val)
                if m in ('exact', 'close'):
                    nspec += 1
                elif m in ('shape', 'value', 'error:illformed'):
                    nspec_bad += 1
                    c.broken_no_input('corr:spec-eval', 'Lean specification evaluator and real evaluation of the same sparse tree disagree (root %d: %s)' % (k, m),
                                      dict(replay, root=k, lean=res, real=numpy.asarray(val).tolist()))
                    break
                else:
                    out['spec-eval:' + m] += 1
        # ---- (3) Lean verdicts
        if a2['verdict'] == 'ok':
            nsym += 1; out[mode + ':verdict:proved-symbolically'] += 1
        elif a1['verdict'] == 'ok':
            nconc += 1; out[mode + ':verdict:exact-at-sample-point'] += 1
        elif a1['verdict'].startswith('fail:'):
            # candidate: Lean rejects at the sample point but the real evaluation passed the exact oracle (or could not run)
            if real is None and case['kr'] == 'ok' and finite(parts) and tol == 0:
                c.broken_no_input('corr:spec-eval', 'Lean checker rejects (%s) sparse data that the real evaluation + exact oracle accept' % a1['verdict'], replay)
            else:
                out[mode + ':verdict:lean-fail-inexact-or-unevaluated'] += 1
        else:
            out[mode + ':verdict:lean-cannot-decide'] += 1
        if len(c.samples) < 3 and nnz > 1 and e.ndim >= 1 and case['kr'] == 'ok':
            c.sample(dict(stream='V', mode=mode, expr=X.describe(e, args)['tree'][:1200], lean_symbolic=a2['verdict'], lean_concrete=a1['verdict'],
                          real=[numpy.asarray(p).tolist() if not isinstance(p, tuple) else [numpy.asarray(q).tolist() for q in p] for p in parts[1:]]))
    for k, v in sorted(out.items()): c.count('V:' + k, v)
    for k, v in sorted(hits.items()): c.count(k, v)
    c.extra['proved_symbolically_for_all_real_arguments'] = nsym
    c.extra['decided_exactly_at_sample_point_only'] = nconc
    c.obligation('corr:spec-eval(sparse-trees)', nspec_bad == 0 and nspec > 0, 'correspondence', '%d roots of real sparse trees evaluated identically by the Lean spec and the real code' % nspec)
    c.obligation('valid:sparse-denotes-dense(lean)', nsym + nconc > 0 and not any(v[2].startswith(('assparse-wrong', 'as_csr-wrong')) for v in c.violations), 'validation',
                 '%d symbolic (all real arguments) + %d exact at the sample point' % (nsym, nconc))
    c.obligation('oracle:real-sparse-eval-denotes-dense', nreal > 0 and not any(v[2].startswith(('assparse-wrong', 'as_csr-wrong', 'sparse-')) for v in c.violations), 'correspondence',
                 '%d real evaluations of sparse tuples checked by exact recomputation' % nreal)


def run(c):
    c.rule = ('random well-typed evaluable DAGs (nvh.genexpr; 75% restricted to the classes with their own _assparse, float and int, ndim 0..3, axis lengths 0..3, nested '
              'loops) and FEM-like element loops with element-dependent block sizes (LoopSum of Inflate of outer products, LoopConcatenate of variable chunks); '
              'sparse data extracted by the real code in three ways (simplified.assparse, as_csr, raw assparse); non-trivial = ndim > 0 and at least one stored entry; '
              'distinct by nutils hash of the tree and extraction mode')
    c.assumptions += ['complex dtype is not generated', 'integer arguments, axis lengths, loop lengths are sampled; real arguments are symbolic in the Lean evaluation',
                      'equal polynomial normal forms => equal values for all real arguments (Props/Poly); the Lean evaluator and checkers are executed, the checkers are proved sound (Props/C05)',
                      'a symbolic failure is never a verdict by itself: fall back to the exact sample point, then to the real evaluation + exact recomputation']
    broken = c.build_and_audit()
    quick = c.tier == 'quick'
    v_stream(c, 60 if quick else 1500, 4 if quick else 5)
    for b in broken:
        c.broken_no_input('proof', b, dict(detail=b))
