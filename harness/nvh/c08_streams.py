"""C08 oracle streams on the real code (numeric, with exact polynomial oracles).

Every stream evaluates real nutils expressions (function.grad/div/curl/laplace/symgrad/surfgrad/normal/J/... of
polynomial fields of polynomial geometries) on samples of the topology zoo and compares with the property's
specification oracle: formal derivatives of the polynomials (`c08_poly.P`, cross-checked against the Lean
specification `gradSpec`/`divSpec`/... through the driver), exact Fraction integrals over the image of the unit box,
and the outward normal `Φ'^{-T} ν₀ / |…|` of the image of a box face.
"""
import itertools, numpy, warnings
from fractions import Fraction
from .c08_poly import P, random_map, jac_at, jacobian_det, affine_map
from . import c08_zoo as ZOO

OK_TOL = 1e-10      # agreement
FAIL_TOL = 1e-8     # a failing input of the real code (dyadic data, well conditioned maps)


def relerr(got, want):
    got, want = numpy.asarray(got, dtype=float), numpy.asarray(want, dtype=float)
    if got.shape != want.shape:
        return float('inf')
    if not want.size:
        return 0.
    if not numpy.isfinite(got).all():
        return float('inf')
    return float(abs(got - want).max() / max(1., abs(want).max()))


def fr(x):
    return str(x) if isinstance(x, Fraction) else repr(x)


class Streams:
    def __init__(self, c):
        self.c = c
        self.rng = c.rng
        self.zoo, self.skipped = ZOO.base_zoo(c.rng, c.tier)
        for name, why in self.skipped:
            c.count('zoo-skipped:' + name)
        self.bad = {}
        self.n = {}

    # ------------------------------------------------------------ bookkeeping
    def judge(self, mech, err, what, replay, ok_tol=OK_TOL, fail_tol=FAIL_TOL):
        """compare an error with the tolerances; returns True when the case is fine"""
        c = self.c
        self.n[mech] = self.n.get(mech, 0) + 1
        c.count('check:' + mech)
        if err < ok_tol:
            return True
        if err >= fail_tol:
            self.bad[mech] = self.bad.get(mech, 0) + 1
            c.failing_input(mech, '%s (max error %.3g)' % (what, err), dict(replay, error=err, mechanism=mech))
            return False
        c.count('inconclusive:' + mech)
        return True

    def obligations(self):
        for mech in sorted(self.n):
            self.c.obligation('oracle:' + mech, self.bad.get(mech, 0) == 0, 'validation' if not mech.startswith('explore') else 'exploration',
                              '%d checks' % self.n[mech])

    def variants(self, z):
        """the entry itself and (sometimes) a refined / hierarchically refined version"""
        out = [z]
        r = self.rng.random()
        if r < .45:
            v = ZOO.refine(z, self.rng, 'refined')
            if v is not None and len(v.topo) <= (400 if self.c.tier == 'quick' else 3000): out.append(v)
        elif r < .8:
            v = ZOO.refine(z, self.rng, 'hier')
            if v is not None and len(v.topo) <= (400 if self.c.tier == 'quick' else 3000): out.append(v)
        return out

    def geometry(self, z, kind):
        from nutils import function
        maps, sign = random_map(self.rng, z.d, kind)
        x = numpy.stack([m.nutils(z.x0) for m in maps])
        return maps, sign, x

    def describe(self, z, maps, **kw):
        return dict(topology=z.name, nelems=len(z.topo), geometry=[repr(m) for m in maps], **{k: (repr(v) if isinstance(v, (P, list)) else v) for k, v in kw.items()})

    def gauss_degree(self, z, needed):
        if 'multipatch' in z.name:
            # the patches of a multipatch mesh are bilinear (not affine) images of the reference square, so an integrand
            # of degree n in x has degree up to 2n in the element coordinates and J(x) adds 2 more
            needed = 2 * needed + 2
        return max(1, min(needed, 7)) if z.simplex else max(1, needed)

    # ------------------------------------------------------------ interior operators
    def interior(self, z, kind):
        from nutils import function
        c, rng, d = self.c, self.rng, z.d
        maps, sign, x = self.geometry(z, kind)
        deg = rng.choice([2, 3, 3])
        p = P.random(rng, d, deg)
        F = [P.random(rng, d, rng.choice([1, 2, 3])) for _ in range(d)]
        pf = p.nutils(x)
        Ff = numpy.stack([f.nutils(x) for f in F])
        ex = dict(x0=z.x0, x=x, grad=function.grad(pf, x), vgrad=function.grad(Ff, x), div=function.div(Ff, x), laplace=function.laplace(pf, x),
                  vlaplace=function.laplace(Ff, x), symgrad=function.symgrad(Ff, x), J=function.J(x), J0=function.J(z.x0),
                  d=function.d(pf, x), hess=function.grad(function.grad(pf, x), x))
        if d == 3:
            ex['curl'] = function.curl(Ff, x)
        scheme = rng.choice([('bezier', 2), ('bezier', 3), ('gauss', 2), ('gauss', 3)])
        smp = z.topo.sample(*scheme)
        vals = dict(zip(ex, smp.eval(list(ex.values()))))
        X0 = vals['x0']
        X = numpy.stack([m(X0) for m in maps], -1)
        dp = [p.deriv(i) for i in range(d)]
        want = dict(
            x=X,
            grad=numpy.stack([q(X) for q in dp], -1),
            vgrad=numpy.stack([numpy.stack([f.deriv(j)(X) for j in range(d)], -1) for f in F], -2),
            div=sum(F[i].deriv(i)(X) for i in range(d)),
            laplace=sum(dp[i].deriv(i)(X) for i in range(d)),
            vlaplace=numpy.stack([sum(f.deriv(i).deriv(i)(X) for i in range(d)) for f in F], -1),
            hess=numpy.stack([numpy.stack([dp[i].deriv(j)(X) for j in range(d)], -1) for i in range(d)], -2),
        )
        want['d'] = want['grad']
        want['symgrad'] = .5 * (want['vgrad'] + numpy.swapaxes(want['vgrad'], -1, -2))
        if d == 3:
            G = want['vgrad']
            want['curl'] = numpy.stack([G[:, 2, 1] - G[:, 1, 2], G[:, 0, 2] - G[:, 2, 0], G[:, 1, 0] - G[:, 0, 1]], -1)
        detJ = numpy.linalg.det(jac_at(maps, X0))
        c.case(('interior', z.name, len(z.topo), kind, repr(maps), repr(p), scheme), nontrivial=True)
        c.count('interior:' + z.family + ':' + kind)
        rep = self.describe(z, maps, field=p, vector_field=F, sample=list(scheme), geometry_kind=kind)
        for k in want:
            self.judge('%s-wrt-geometry' % ('grad' if k in ('d',) else k) if k != 'x' else 'explore:geometry-value', relerr(vals[k], want[k]),
                       'function.%s of a polynomial of the geometry differs from the formal derivative at the sample points' % k, dict(rep, operator=k))
        self.judge('jacobian-multiplicative', relerr(vals['J'] / vals['J0'], abs(detJ)),
                   'J(x)/J(x0) differs from |det dx/dx0|', dict(rep, operator='J'))
        c.sample(dict(stream='interior', **{k: rep[k] for k in ('topology', 'geometry', 'field', 'sample')}))
        return maps, sign, x

    # ------------------------------------------------------------ integrals: invariance under the geometry map / the mesh
    def integral(self, z, kind):
        from nutils import function
        c, rng, d = self.c, self.rng, z.d
        maps, sign, x = self.geometry(z, kind)
        fdeg = 2 if kind == 'affine' or not z.simplex else 1
        f = P.random(rng, d, rng.randint(1, fdeg) if fdeg > 1 else 1)
        det = jacobian_det(maps)
        integrand = f.compose(maps) * det
        exact = sign * integrand.integrate_box()
        vol = sign * det.integrate_box()
        degree = self.gauss_degree(z, integrand.degree())
        with warnings.catch_warnings():
            warnings.simplefilter('ignore')
            got, gotvol = z.topo.integrate([f.nutils(x) * function.J(x), function.J(x)], degree=degree)
        c.case(('integral', z.name, len(z.topo), repr(maps), repr(f)), nontrivial=True)
        c.count('integral:' + z.family + ':' + kind)
        rep = self.describe(z, maps, integrand=f, degree=degree, exact=fr(exact), got=float(got))
        if integrand.degree() <= degree or not z.simplex:
            self.judge('integral-invariance', relerr(got, float(exact)), 'integral of f(x) J(x) differs from the exact integral over the image of the unit box', rep)
            self.judge('integral-invariance', relerr(gotvol, float(vol)), 'integral of J(x) differs from the exact volume of the image of the unit box', dict(rep, integrand='1', exact=fr(vol), got=float(gotvol)))

    # ------------------------------------------------------------ boundary: normals, measure, divergence theorem, surface gradient
    def face_normals(self, X0, d):
        """reference outward normal of the unit box at boundary points (None where ambiguous)"""
        nu = numpy.zeros_like(X0)
        on0 = abs(X0) < 1e-12
        on1 = abs(X0 - 1) < 1e-12
        cnt = on0.sum(-1) + on1.sum(-1)
        nu[on0] = -1
        nu[on1] = 1
        return nu, cnt == 1

    def boundary(self, z, kind):
        from nutils import function
        c, rng, d = self.c, self.rng, z.d
        maps, sign, x = self.geometry(z, kind)
        btopo = z.topo.boundary
        F = [P.random(rng, d, rng.choice([1, 2]) if kind != 'affine' or z.simplex else rng.choice([1, 2, 3])) for _ in range(d)]
        p = P.random(rng, d, rng.choice([2, 3]))
        Ff = numpy.stack([f.nutils(x) for f in F]); pf = p.nutils(x)
        n = function.normal(x); J = function.J(x)
        det = jacobian_det(maps)
        divF = sum((F[i].deriv(i) for i in range(d)), P(d))
        exact_div = sign * (divF.compose(maps) * det).integrate_box()
        vol = sign * det.integrate_box()
        needed = max(f.degree() for f in F) * max(m.degree() for m in maps) + (d - 1) * (max(m.degree() for m in maps) - 1) + 1
        degree = self.gauss_degree(z, needed)
        rep = self.describe(z, maps, vector_field=F, field=p, degree=degree, geometry_kind=kind)
        c.case(('boundary', z.name, len(z.topo), repr(maps), repr(F)), nontrivial=True)
        c.count('boundary:' + z.family + ':' + kind)
        with warnings.catch_warnings():
            warnings.simplefilter('ignore')
            closed, xn, flux, vol_in, div_in = None, None, None, None, None
            closed, xn, flux = btopo.integrate([n * J, (x @ n) * J, (Ff @ n) * J], degree=degree)
            vol_in, div_in = z.topo.integrate([J, function.div(Ff, x) * J], degree=degree)
        exact_ok = needed <= degree or not z.simplex
        self.judge('boundary-closed', relerr(closed, numpy.zeros(d)), 'the boundary integral of the normal does not vanish', dict(rep, got=closed.tolist()))
        if exact_ok:
            self.judge('boundary-x.n', relerr(xn, d * float(vol)), 'the boundary integral of x.n differs from dim times the exact volume', dict(rep, got=float(xn), exact=fr(d * vol)))
            self.judge('divergence-theorem', relerr(flux, float(exact_div)), 'the boundary flux differs from the exact integral of the divergence', dict(rep, got=float(flux), exact=fr(exact_div)))
            self.judge('divergence-theorem', relerr(flux, div_in), 'topo.boundary.integrate(F.n J) differs from topo.integrate(div F J)', dict(rep, got=float(flux), interior=float(div_in)))
        # pointwise: normal direction, boundary measure, surface gradient, wrappers
        ex = dict(x0=z.x0, n=n, J=J, J0=function.J(z.x0), surfgrad=function.surfgrad(pf, x), grad=function.grad(pf, x), ngrad=function.ngrad(pf, x),
                  tangent=function.tangent(x, Ff), dotnorm=function.dotnorm(Ff, x), nsymgrad=function.nsymgrad(Ff, x), vgrad=function.grad(Ff, x))
        smp = btopo.sample('gauss', rng.choice([1, 2, 3]))
        vals = dict(zip(ex, smp.eval(list(ex.values()))))
        X0 = vals['x0']
        nu0, valid = self.face_normals(X0, d)
        if not valid.all():
            c.count('boundary:ambiguous-face-point')
        X = numpy.stack([m(X0) for m in maps], -1)
        Jm = jac_at(maps, X0)
        raw = numpy.einsum('qji,qj->qi', numpy.linalg.inv(Jm), nu0)        # Φ'^{-T} ν0
        nrm = numpy.linalg.norm(raw, axis=-1)
        nwant = raw / nrm[:, None]
        gp = numpy.stack([p.deriv(i)(X) for i in range(d)], -1)
        Fv = numpy.stack([f(X) for f in F], -1)
        G = numpy.stack([numpy.stack([f.deriv(j)(X) for j in range(d)], -1) for f in F], -2)
        v = valid
        self.judge('normal-unit', relerr(numpy.linalg.norm(vals['n'], axis=-1), numpy.ones(len(X0))), 'the normal is not a unit vector', rep)
        self.judge('normal-outward-orthogonal', relerr(vals['n'][v], nwant[v]), 'the boundary normal differs from the outward unit normal of the image of the box face', rep)
        self.judge('jacobian-boundary', relerr((vals['J'] / vals['J0'])[v], (abs(numpy.linalg.det(Jm)) * nrm)[v]), 'the boundary measure J(x)/J(x0) differs from |det Φ\'| |Φ\'^-T ν0|', rep)
        self.judge('grad-wrt-geometry', relerr(vals['grad'], gp), 'function.grad on a boundary sample differs from the formal derivative', dict(rep, operator='grad@boundary'))
        self.judge('vgrad-wrt-geometry', relerr(vals['vgrad'], G), 'function.grad of a vector field on a boundary sample differs from the formal derivative', dict(rep, operator='vgrad@boundary'))
        proj = gp - numpy.einsum('qi,q->qi', nwant, numpy.einsum('qi,qi->q', gp, nwant))
        self.judge('surfgrad-tangential-projection', relerr(vals['surfgrad'][v], proj[v]), 'the surface gradient differs from the tangential projection of the gradient', rep)
        self.judge('wrappers-ngrad-tangent-dotnorm', relerr(vals['ngrad'][v], numpy.einsum('qi,qi->q', gp, nwant)[v]), 'ngrad differs from grad.n', dict(rep, operator='ngrad'))
        self.judge('wrappers-ngrad-tangent-dotnorm', relerr(vals['dotnorm'][v], numpy.einsum('qi,qi->q', Fv, nwant)[v]), 'dotnorm differs from F.n', dict(rep, operator='dotnorm'))
        self.judge('wrappers-ngrad-tangent-dotnorm', relerr(vals['tangent'][v], (Fv - nwant * numpy.einsum('qi,qi->q', Fv, nwant)[:, None])[v]), 'tangent differs from F - (F.n) n', dict(rep, operator='tangent'))
        S = .5 * (G + numpy.swapaxes(G, -1, -2))
        self.judge('wrappers-ngrad-tangent-dotnorm', relerr(vals['nsymgrad'][v], numpy.einsum('qij,qj->qi', S, nwant)[v]), 'nsymgrad differs from symgrad.n', dict(rep, operator='nsymgrad'))
        # outward with respect to the element: n . (x_boundary - x_element-centroid) > 0 (affine maps keep convexity)
        if kind == 'affine':
            self.element_outward(z, maps, x, rep)

    def element_outward(self, z, maps, x, rep):
        """for every boundary element: n·(x_b − x_c) > 0 with x_c a point of the adjacent interior element (located through the
        reference geometry: the element whose x0-centroid is nearest along -ν0)"""
        from nutils import function
        btopo = z.topo.boundary
        n = function.normal(x)
        bs = btopo.sample('gauss', 1)
        xb, nb, x0b = bs.eval([x, n, z.x0])
        x0c = z.topo.sample('gauss', 1).eval(z.x0)
        Xc = numpy.stack([m(x0c) for m in maps], -1)
        ok = True
        for q in range(len(xb)):
            # the adjacent element contains points arbitrarily close to the face point on the inside; use the nearest element centroid
            k = numpy.argmin(numpy.linalg.norm(x0c - x0b[q], axis=-1))
            if not nb[q] @ (xb[q] - Xc[k]) > 1e-12: ok = False
        self.judge('normal-out-of-element', 0. if ok else 1., 'the normal does not point away from the centroid of the adjacent element', rep)

    # ------------------------------------------------------------ interfaces
    def interfaces(self, z, kind):
        from nutils import function
        c, rng, d = self.c, self.rng, z.d
        try:
            itopo = z.topo.interfaces
            if len(itopo) == 0: return
        except Exception as e:
            c.count('interfaces-unavailable:' + type(e).__name__); return
        maps, sign, x = self.geometry(z, kind)
        p = P.random(rng, d, rng.choice([2, 3])); pf = p.nutils(x)
        n = function.normal(x); n0 = function.normal(z.x0); J = function.J(x)
        ex = dict(x0=z.x0, x=x, xo=function.opposite(x), n=n, no=function.opposite(n), n0=n0, J=J, Jo=function.opposite(J), J0=function.J(z.x0),
                  jump=function.jump(pf), mean=function.mean(function.grad(pf, x)), go=function.opposite(function.grad(pf, x)))
        smp = itopo.sample('gauss', 2)
        vals = dict(zip(ex, smp.eval(list(ex.values()))))
        X0 = vals['x0']; X = numpy.stack([m(X0) for m in maps], -1)
        Jm = jac_at(maps, X0)
        c.case(('interfaces', z.name, len(z.topo), repr(maps)), nontrivial=True)
        c.count('interfaces:' + z.family + ':' + kind)
        rep = self.describe(z, maps, field=p, geometry_kind=kind, ninterfaces=len(itopo))
        self.judge('interface-normals-opposite', relerr(vals['no'], -vals['n']), 'the normals on the two sides of an interface are not opposite', rep)
        self.judge('interface-geometry-continuous', relerr(vals['xo'], vals['x']), 'the geometry differs on the two sides of an interface', rep)
        self.judge('interface-measure-equal', relerr(vals['Jo'], vals['J']), 'the interface measure differs on the two sides', rep)
        self.judge('normal-unit', relerr(numpy.linalg.norm(vals['n'], axis=-1), numpy.ones(len(X0))), 'the interface normal is not a unit vector', rep)
        # reference normal: unit, orthogonal to the flat interface element (differences of its sample points), then mapped
        n0v = vals['n0']
        worst = 0.
        for ielem in range(len(itopo)):
            idx = smp.getindex(ielem)
            if len(idx) > 1:
                t = X0[idx[1:]] - X0[idx[0]]
                worst = max(worst, abs(t @ n0v[idx[0]]).max(), abs(n0v[idx] - n0v[idx[0]]).max())
        self.judge('interface-normal-orthogonal', worst, 'the reference interface normal is not orthogonal to the interface', rep)
        raw = numpy.einsum('qji,qj->qi', numpy.linalg.inv(Jm), n0v)
        nrm = numpy.linalg.norm(raw, axis=-1)
        self.judge('interface-normal-mapped', relerr(vals['n'], raw / nrm[:, None]), 'the interface normal differs from the mapped reference normal Φ\'^-T n0 / |…|', rep)
        self.judge('jacobian-boundary', relerr(vals['J'] / vals['J0'], abs(numpy.linalg.det(Jm)) * nrm), 'the interface measure J(x)/J(x0) differs from |det Φ\'| |Φ\'^-T n0|', rep)
        self.interface_direction(z, itopo, maps, x, rep)
        gp = numpy.stack([p.deriv(i)(X) for i in range(d)], -1)
        self.judge('grad-wrt-geometry', relerr(vals['mean'], gp), 'mean of function.grad across an interface differs from the formal derivative', dict(rep, operator='mean grad@interface'))
        self.judge('grad-wrt-geometry', relerr(vals['go'], gp), 'function.grad on the opposite side differs from the formal derivative', dict(rep, operator='opposite grad@interface'))
        self.judge('interface-geometry-continuous', relerr(vals['jump'], numpy.zeros(len(X0))), 'a polynomial of the geometry jumps across an interface', rep)

    def interface_direction(self, z, itopo, maps, x, rep):
        """the interface normal points from the element on this side to the element on the opposite side: with the piecewise
        constant field of element centroids c: n · (opposite(c) − c) > 0 (affine images of convex elements)"""
        from nutils import function
        if not all(m.degree() <= 1 for m in maps): return
        try:
            basis = z.topo.basis('discont', degree=0)
            num, den = z.topo.integrate([basis[:, None] * x[None, :] * function.J(z.x0), basis * function.J(z.x0)], degree=2)
            cen = basis @ (num / den[:, None])
            smp = itopo.sample('gauss', 1)
            nv, cv, co = smp.eval([function.normal(x), cen, function.opposite(cen)])
        except Exception as e:
            self.c.count('interface-direction-unavailable:' + type(e).__name__); return
        dist = numpy.einsum('qi,qi->q', nv, co - cv)
        self.judge('interface-normal-direction', 0. if (dist > 1e-12).all() else 1., 'an interface normal does not point from the element on its side to the element on the opposite side', dict(rep, worst=float(dist.min())))

    # ------------------------------------------------------------ product topologies: per-space operators
    def product(self, z, kind):
        from nutils import function
        c, rng = self.c, self.rng
        (A, a), (B, b) = z.factors
        a = a if a.ndim else a[None]; b = b if b.ndim else b[None]
        da, db = a.shape[0], b.shape[0]
        ma, sa = random_map(rng, da, kind); mb, sb = random_map(rng, db, 'affine' if kind == 'affine' else rng.choice(['affine', 'bilinear', 'quadratic']))
        xa = numpy.stack([m.nutils(a) for m in ma]); xb = numpy.stack([m.nutils(b) for m in mb])
        xx = numpy.concatenate([xa, xb])
        d = da + db
        p = P.random(rng, d, 3); pf = p.nutils(xx)
        ex = dict(a=a, b=b, ga=function.grad(pf, xa), gb=function.grad(pf, xb), g=function.grad(pf, xx), Ja=function.J(xa), Jb=function.J(xb), J=function.J(xx),
                  Ja0=function.J(a), Jb0=function.J(b), gsp=function.grad(pf, xx, spaces=z.spaces), Jsp=function.J(xx, spaces=z.spaces))
        smp = z.topo.sample('gauss', 2)
        vals = dict(zip(ex, smp.eval(list(ex.values()))))
        Xa = numpy.stack([m(vals['a']) for m in ma], -1); Xb = numpy.stack([m(vals['b']) for m in mb], -1)
        X = numpy.concatenate([Xa, Xb], -1)
        gp = numpy.stack([p.deriv(i)(X) for i in range(d)], -1)
        c.case(('product', z.name, repr(ma), repr(mb), repr(p)), nontrivial=True)
        c.count('product:' + z.family + ':' + kind)
        rep = dict(topology=z.name, geometry_a=[repr(m) for m in ma], geometry_b=[repr(m) for m in mb], field=repr(p))
        self.judge('per-space-gradient', relerr(vals['ga'], gp[:, :da]), 'the gradient with respect to the geometry of one factor space differs from the partial derivatives', dict(rep, operator='grad(f, x_a)'))
        self.judge('per-space-gradient', relerr(vals['gb'], gp[:, da:]), 'the gradient with respect to the geometry of one factor space differs from the partial derivatives', dict(rep, operator='grad(f, x_b)'))
        self.judge('per-space-gradient', relerr(vals['g'], gp), 'the gradient with respect to the joint geometry differs from the formal derivative', dict(rep, operator='grad(f, [x_a, x_b])'))
        self.judge('per-space-gradient', relerr(vals['gsp'], gp), 'grad(..., spaces=all) differs from the formal derivative', dict(rep, operator='grad(spaces=)'))
        da_ = abs(numpy.linalg.det(jac_at(ma, vals['a']))); db_ = abs(numpy.linalg.det(jac_at(mb, vals['b'])))
        self.judge('per-space-jacobian', relerr(vals['Ja'] / vals['Ja0'], da_), 'J of the geometry of one factor differs from |det|', rep)
        self.judge('per-space-jacobian', relerr(vals['Jb'] / vals['Jb0'], db_), 'J of the geometry of one factor differs from |det|', rep)
        self.judge('per-space-jacobian', relerr(vals['J'], vals['Ja'] * vals['Jb']), 'J of the joint geometry differs from the product of the per-space Jacobians', rep)
        self.judge('per-space-jacobian', relerr(vals['Jsp'], vals['J']), 'J(spaces=all) differs from J', rep)
        # boundary of one factor times the other factor: normal of the joint geometry
        try:
            bt = A.boundary * B
            n = function.normal(xx)
            bs = bt.sample('gauss', 1)
            nv, av, bv = bs.eval([n, a, b])
        except Exception as e:
            c.count('product-boundary-unavailable:' + type(e).__name__); return
        X0 = numpy.concatenate([av, bv], -1)
        maps = [m.compose([P.var(d, i) for i in range(da)]) if False else m for m in ma]
        # joint Jacobian is block diagonal
        Jm = numpy.zeros((len(X0), d, d)); Jm[:, :da, :da] = jac_at(ma, av); Jm[:, da:, da:] = jac_at(mb, bv)
        nu0 = numpy.zeros_like(X0)
        nu0[:, :da][abs(av) < 1e-12] = -1; nu0[:, :da][abs(av - 1) < 1e-12] = 1
        raw = numpy.einsum('qji,qj->qi', numpy.linalg.inv(Jm), nu0)
        self.judge('normal-outward-orthogonal', relerr(nv, raw / numpy.linalg.norm(raw, axis=-1)[:, None]), 'the normal on (boundary of factor A) x B differs from the outward unit normal', dict(rep, operator='normal@A.boundary*B'))

    # ------------------------------------------------------------ manifolds: curve in 2-D / 3-D via exterior normal, boundary surfaces with curvature
    def curve(self):
        from nutils import function, mesh
        c, rng = self.c, self.rng
        T, t = mesh.line(ZOO.dyadic_nodes(rng, rng.randint(1, 3)), space='C')
        tt = t if t.ndim else t[None]
        maps, _ = random_map(rng, 1, rng.choice(['affine', 'quadratic']), D=2)
        x = numpy.stack([m.nutils(tt) for m in maps])
        p = P.random(rng, 2, 3); pf = p.nutils(x)
        ex = dict(t=tt, J=function.J(x), n=function.normal(x, refgeom=tt), sg=function.surfgrad(pf, x), J0=function.J(tt))
        smp = T.sample('gauss', 3)
        vals = dict(zip(ex, smp.eval(list(ex.values()))))
        tv = vals['t']
        dx = jac_at(maps, tv)[:, :, 0]                 # tangent x'(t)
        speed = numpy.linalg.norm(dx, axis=-1)
        X = numpy.stack([m(tv) for m in maps], -1)
        gp = numpy.stack([p.deriv(i)(X) for i in range(2)], -1)
        tau = dx / speed[:, None]
        c.case(('curve', repr(maps), repr(p)), nontrivial=True); c.count('manifold:curve-in-2d')
        rep = dict(topology='line', geometry=[repr(m) for m in maps], field=repr(p))
        self.judge('jacobian-manifold', relerr(vals['J'] / vals['J0'], speed), 'J of a curve differs from |x\'(t)| (sqrt of the Gram determinant)', rep)
        self.judge('exterior-normal', relerr(vals['n'], numpy.stack([dx[:, 1], -dx[:, 0]], -1) / speed[:, None]), 'the exterior normal of a curve differs from the rotated unit tangent', rep)
        self.judge('surfgrad-tangential-projection', relerr(vals['sg'], tau * numpy.einsum('qi,qi->q', gp, tau)[:, None]), 'the surface gradient on a curve differs from the tangential projection of the gradient', rep)
        # arc length: exact for affine maps
        if all(m.degree() <= 1 for m in maps):
            L = float(numpy.sqrt(float(maps[0].deriv(0).t.get((0,), 0)) ** 2 + float(maps[1].deriv(0).t.get((0,), 0)) ** 2))
            self.judge('jacobian-manifold', relerr(T.integrate(function.J(x), degree=1), L), 'the length of a straight segment is wrong', rep)

    def surface3(self):
        """2-D topology with a 3-D geometry: J = sqrt det Gram, exterior normal = normalised cross product, surface gradient"""
        from nutils import function, mesh
        c, rng = self.c, self.rng
        T, u = (mesh.rectilinear([ZOO.dyadic_nodes(rng, 2), ZOO.dyadic_nodes(rng, 1)]) if rng.random() < .5 else mesh.unitsquare(rng.choice([1, 2]), rng.choice(['triangle', 'mixed'])))
        maps, _ = random_map(rng, 2, rng.choice(['affine', 'bilinear', 'quadratic']), D=3)
        x = numpy.stack([m.nutils(u) for m in maps])
        p = P.random(rng, 3, 3); pf = p.nutils(x)
        ex = dict(u=u, J=function.J(x), n=function.normal(x, refgeom=u), sg=function.surfgrad(pf, x), J0=function.J(u))
        smp = T.sample('gauss', 2)
        vals = dict(zip(ex, smp.eval(list(ex.values()))))
        U = vals['u']
        G = jac_at(maps, U)                           # (q, 3, 2)
        cr = numpy.cross(G[:, :, 0], G[:, :, 1])
        area = numpy.linalg.norm(cr, axis=-1)
        X = numpy.stack([m(U) for m in maps], -1)
        gp = numpy.stack([p.deriv(i)(X) for i in range(3)], -1)
        nn = cr / area[:, None]
        c.case(('surface3', repr(maps), repr(p)), nontrivial=True); c.count('manifold:surface-in-3d')
        rep = dict(topology=type(T).__name__, geometry=[repr(m) for m in maps], field=repr(p))
        self.judge('jacobian-manifold', relerr(vals['J'] / vals['J0'], area), 'J of a surface in 3-D differs from the sqrt of the Gram determinant', rep)
        self.judge('exterior-normal', relerr(vals['n'], nn), 'the exterior normal of a surface differs from the normalised cross product of the tangents', rep)
        self.judge('surfgrad-tangential-projection', relerr(vals['sg'], gp - nn * numpy.einsum('qi,qi->q', gp, nn)[:, None]), 'the surface gradient on a surface differs from the tangential projection', rep)

    def curvature(self):
        """boundary of a polar-mapped square: circles of radius r0 and r0+1: curvature = div n = ±1/r; sphere-like shell in 3-D"""
        from nutils import function, mesh
        c, rng = self.c, self.rng
        r0 = rng.choice([1., 2., .5])
        n = rng.choice([2, 3, 4])
        T, u = mesh.rectilinear([numpy.linspace(0, 1, 2), numpy.linspace(0, 1, n + 1)])
        r = r0 + u[0]; th = u[1] * (numpy.pi / 2)
        x = numpy.stack([r * numpy.cos(th), r * numpy.sin(th)])
        kappa = function.curvature(x)
        nrm = function.normal(x)
        c.case(('curvature', r0, n), nontrivial=True); c.count('manifold:curvature')
        rep = dict(topology='rectilinear [1,%d]' % n, geometry='polar r=%s+u0, theta=pi/2 u1' % r0)
        for side, rad, sgn in (('left', r0, -1.), ('right', r0 + 1, 1.)):
            bt = T.boundary[side]
            s = bt.sample('gauss', 3)
            kv, nv, xv = s.eval([kappa, nrm, x])
            self.judge('curvature-circle', relerr(kv, numpy.full(len(kv), sgn / rad)), 'the curvature of a circular arc of radius %s differs from %s1/r' % (rad, '+' if sgn > 0 else '-'), dict(rep, side=side))
            self.judge('normal-outward-orthogonal', relerr(nv, sgn * xv / numpy.linalg.norm(xv, axis=-1)[:, None]), 'the normal of a circular arc is not radial', dict(rep, side=side))
            L = bt.integrate(function.J(x), degree=12)
            self.judge('jacobian-manifold', relerr(L, numpy.pi / 2 * rad), 'the length of a quarter circle is wrong', dict(rep, side=side))


    # ------------------------------------------------------------ geometry / fields represented in finite element bases of (refined) topologies
    def fe_geometry(self, z, kind):
        """the geometry map is L2-projected onto the std / h-std basis of a refined variant (exactly representable), so that
        `_TransformsCoords` targets the refined topology: root derivatives carry a non-trivial inverse chain map, tip
        derivatives a non-trivial relative map; the field lives on the coarse representation (different chart)"""
        from nutils import function
        c, rng, d = self.c, self.rng, z.d
        if z.spaces: return
        how = rng.choice(['refined', 'hier', 'hier', None]) if ':' not in z.name else None
        v = (ZOO.refine(z, rng, how) if how else z) or z
        maps, sign = random_map(rng, d, kind)
        degree = 1 if kind == 'affine' and rng.random() < .5 else 2
        basis = None
        for btype in (['h-std', 'std'] if 'hier' in v.name else ['std', 'h-std']):
            try:
                basis = v.topo.basis(btype, degree=degree); break
            except Exception as e:
                c.count('fe-geometry-basis-unavailable:%s:%s' % (btype, type(e).__name__))
        if basis is None: return
        if len(basis) > (70 if c.tier == 'quick' else 110):
            c.count('fe-geometry-skipped-size'); return
        x0 = z.x0
        xc = numpy.stack([m.nutils(x0) for m in maps])
        M, rhs = v.topo.integrate([basis[:, None] * basis[None, :] * function.J(x0), basis[:, None] * xc[None, :] * function.J(x0)], degree=2 * degree + 2)
        M = M.export('dense') if hasattr(M, 'export') else M
        cx = numpy.linalg.solve(M, rhs)
        xh = basis @ cx
        p = P.random(rng, d, rng.choice([2, 3])); F = [P.random(rng, d, 2) for _ in range(d)]
        pc = p.nutils(xc); ph = p.nutils(xh)
        Fh = numpy.stack([f.nutils(xh) for f in F])
        ex = dict(x0=x0, dx=xh - xc, g_ch=function.grad(pc, xh), g_hh=function.grad(ph, xh), g_hc=function.grad(ph, xc), div=function.div(Fh, xc), lap=function.laplace(pc, xh),
                  J=function.J(xh), J0=function.J(x0), gb=(basis.grad(xh) * cx[:, 0, None]).sum(0))
        smp = v.topo.sample('gauss', 2)
        vals = dict(zip(ex, smp.eval(list(ex.values()))))
        X0 = vals['x0']; X = numpy.stack([m(X0) for m in maps], -1)
        gp = numpy.stack([p.deriv(i)(X) for i in range(d)], -1)
        c.case(('fe-geometry', v.name, len(v.topo), repr(maps), repr(p)), nontrivial=True)
        c.count('fe-geometry:' + z.family + ':' + str(how) + ':' + kind)
        rep = self.describe(v, maps, field=p, basis_degree=degree, ndofs=len(basis))
        if abs(vals['dx']).max() > 1e-11:
            c.count('fe-geometry-projection-inexact'); return
        tol_scale = 1.
        for k, what in (('g_ch', 'coarse field, refined-basis geometry'), ('g_hh', 'both on the refined basis'), ('g_hc', 'refined-basis field, coarse geometry')):
            self.judge('grad-wrt-geometry', relerr(vals[k], gp), 'function.grad differs from the formal derivative (%s)' % what, dict(rep, operator=k))
        self.judge('div-wrt-geometry', relerr(vals['div'], sum(F[i].deriv(i)(X) for i in range(d))), 'function.div differs from the formal divergence (refined-basis field, coarse geometry)', rep)
        self.judge('laplace-wrt-geometry', relerr(vals['lap'], sum(p.deriv(i).deriv(i)(X) for i in range(d))), 'function.laplace differs (coarse field, refined-basis geometry)', rep, ok_tol=1e-8, fail_tol=1e-5)
        self.judge('jacobian-multiplicative', relerr(vals['J'] / vals['J0'], abs(numpy.linalg.det(jac_at(maps, X0)))), 'J of a refined-basis geometry / J(x0) differs from |det dx/dx0|', rep)
        e0 = numpy.zeros((len(X0), d)); e0[:, 0] = 1
        self.judge('grad-wrt-geometry', relerr(vals['gb'], e0), 'sum of basis-function gradients times the geometry coefficients differs from the unit vector', dict(rep, operator='basis.grad(x)'))
        # boundary: normal and measure of the refined-basis geometry
        bt = v.topo.boundary
        n = function.normal(xh)
        bs = bt.sample('gauss', 2)
        nv, Jb, Jb0, X0b, flux = None, None, None, None, None
        nv, Jb, Jb0, X0b = bs.eval([n, function.J(xh), function.J(x0), x0])
        nu0, valid = self.face_normals(X0b, d)
        Jm = jac_at(maps, X0b)
        raw = numpy.einsum('qji,qj->qi', numpy.linalg.inv(Jm), nu0); nrm = numpy.linalg.norm(raw, axis=-1)
        self.judge('normal-outward-orthogonal', relerr(nv[valid], (raw / nrm[:, None])[valid]), 'the boundary normal of a refined-basis geometry differs from the outward unit normal', rep)
        self.judge('jacobian-boundary', relerr((Jb / Jb0)[valid], (abs(numpy.linalg.det(Jm)) * nrm)[valid]), 'the boundary measure of a refined-basis geometry is wrong', rep)
        det = jacobian_det(maps)
        vol = sign * det.integrate_box()
        needed = d * (max(m.degree() for m in maps) - 1) + 1
        if needed <= 7 or not z.simplex:
            got = v.topo.integrate(function.J(xh), degree=self.gauss_degree(z, needed))
            self.judge('integral-invariance', relerr(got, float(vol)), 'integral of J of a refined-basis geometry differs from the exact volume', rep)
            xn = bt.integrate((xh @ n) * function.J(xh), degree=self.gauss_degree(z, needed + 1))
            self.judge('boundary-x.n', relerr(xn, d * float(vol)), 'the boundary integral of x.n (refined-basis geometry) differs from dim times the exact volume', rep)

    # ------------------------------------------------------------ geometry on a basis of topo.refined^k, operators on strictly finer levels
    TAIL_SIG = 'transformlinear:target-tail-ignored'

    def tail_probe(self, coarse, fine, nprobe=4):
        """mechanism probe for `TransformLinear(target=coarse.transforms, source=fine.transforms, index)`: its value (simplified and as
        compiled) must be the linear part of the chain *relative to the target*, i.e. the product of the linear parts of the items
        that follow the coarse element's chain.  Specification from the transform items themselves (exact dyadic floats).
        Returns the list of (index, simplified, compiled, wanted, folded value == linear part of the full chain) that disagree."""
        from nutils import evaluable as ev
        c, rng = self.c, self.rng
        bad = []
        idx = sorted(rng.sample(range(len(fine)), min(nprobe, len(fine))))
        for i in idx:
            chain = fine.transforms[i]
            want = None
            for n in range(len(chain), 0, -1):
                try:
                    coarse.transforms.index(chain[:n])
                except Exception:
                    continue
                want = numpy.eye(chain[n - 1].fromdims)
                for item in chain[n:]:
                    want = want @ numpy.asarray(item.linear, dtype=float)
                full = numpy.eye(chain[0].todims)
                for item in chain:
                    full = full @ numpy.asarray(item.linear, dtype=float)
                break
            if want is None:
                c.count('refined-target:tail-probe-no-prefix'); continue
            node = ev.TransformLinear(coarse.transforms, fine.transforms, ev.constant(i))
            got_s = numpy.asarray(ev.eval_once(node))
            got_c = numpy.asarray(ev.eval_once(node, _simplify=False, _optimize=False))
            c.count('refined-target:tail-probe')
            if got_s.shape != want.shape or got_c.shape != want.shape or abs(got_s - want).max() > 1e-12 or abs(got_c - want).max() > 1e-12:
                # "tail ignored": the folded value is the linear part of the whole chain (from the root) instead of the part relative to the target
                ignored = got_s.shape == full.shape and abs(got_s - full).max() <= 1e-12 and abs(full - want).max() > 1e-12
                bad.append((i, got_s.tolist(), got_c.tolist(), want.tolist(), bool(ignored)))
        return bad

    def refined_target_core(self):
        """deterministic core of `refined_target`: every non-product 1-D / 2-D entry, affine geometry on a basis of `topo.refined`"""
        for z in self.zoo:
            if not z.spaces and z.d <= 2:
                self.refined_target(z, 'affine', k=1)

    def refined_target(self, z, kind, k=None):
        """the geometry is represented exactly in the std basis of `topo.refined^k` (k = 0, 1), while J, grad and the normal are evaluated
        on the strictly finer `topo.refined^(k+1)` (sometimes `^(k+2)`) and its boundary: the coordinate system in which the geometry
        is differentiated (the `target` of TransformLinear / TransformCoords / TransformBasis) is a strict ancestor of every chain of
        the sample, so exactly the tail of the chain relative to that ancestor must enter J, grad and the normal."""
        from nutils import function
        c, rng, d = self.c, self.rng, z.d
        if z.spaces or ':' in z.name: return
        k = rng.choice([0, 1, 1]) if k is None else k
        limit = 260 if c.tier == 'quick' else 1200
        try:
            coarse = z.topo
            for _ in range(k): coarse = coarse.refined
            fine = coarse.refined
            if len(fine) * 2 ** d <= limit and rng.random() < .35: fine = fine.refined
            nfine = len(fine)
        except Exception as e:
            c.count('refined-target-unavailable:' + type(e).__name__); return
        if nfine > limit:
            c.count('refined-target-skipped-size'); return
        maps, sign = random_map(rng, d, kind)
        degree = 1 if kind == 'affine' and rng.random() < .6 else 2
        try:
            basis = coarse.basis('std', degree=degree)
        except Exception as e:
            c.count('refined-target-basis-unavailable:' + type(e).__name__); return
        if len(basis) > (90 if c.tier == 'quick' else 200):
            c.count('refined-target-skipped-size'); return
        x0 = z.x0
        xc = numpy.stack([m.nutils(x0) for m in maps])
        M, rhs = coarse.integrate([basis[:, None] * basis[None, :] * function.J(x0), basis[:, None] * xc[None, :] * function.J(x0)], degree=2 * degree + 2)
        M = M.export('dense') if hasattr(M, 'export') else M
        cx = numpy.linalg.solve(M, rhs)
        xh = basis @ cx
        p = P.random(rng, d, rng.choice([2, 3]))
        ph = p.nutils(xh)
        ex = dict(x0=x0, dx=xh - xc, grad=function.grad(ph, xh), J=function.J(xh), J0=function.J(x0),
                  g_hc=function.grad(ph, xc), g_ch=function.grad(p.nutils(xc), xh))      # field and geometry in different charts
        vals = dict(zip(ex, fine.sample('gauss', 2).eval(list(ex.values()))))
        if abs(vals['dx']).max() > 1e-11:
            c.count('refined-target-projection-inexact'); return
        tail_bad = self.tail_probe(coarse, fine)
        nbad_before = sum(self.bad.values())
        def mech(generic):
            return self.TAIL_SIG if any(t[4] for t in tail_bad) else generic
        depth = 'refined^%d on refined^%d' % (k, k + (2 if nfine > len(coarse) * 2 ** d else 1))
        c.case(('refined-target', z.name, k, nfine, repr(maps), repr(p)), nontrivial=True)
        c.count('refined-target:' + z.family + ':' + depth.replace(' ', '-') + ':' + kind)
        rep = dict(self.describe(z, maps, field=p, basis_degree=degree, ndofs=len(basis)), stream='refined_target', basis_on='topo' + '.refined' * k, sampled_on=depth,
                   tail_probe=tail_bad[:2])
        X0 = vals['x0']; X = numpy.stack([m(X0) for m in maps], -1)
        gp = numpy.stack([p.deriv(i)(X) for i in range(d)], -1)
        Jm = jac_at(maps, X0)
        self.judge(mech('jacobian-multiplicative'), relerr(vals['J'] / vals['J0'], abs(numpy.linalg.det(Jm))),
                   'J of a geometry on a basis of %s evaluated on a finer level differs from |det dx/dx0| J(x0)' % rep['basis_on'], dict(rep, operator='J'))
        self.judge(mech('grad-wrt-geometry'), relerr(vals['grad'], gp), 'function.grad w.r.t. a geometry on a basis of %s evaluated on a finer level differs from the formal derivative' % rep['basis_on'], dict(rep, operator='grad'))
        self.judge(mech('grad-wrt-geometry'), relerr(vals['g_hc'], gp), 'function.grad of a field on a basis of %s w.r.t. the coarse geometry, evaluated on a finer level, differs from the formal derivative' % rep['basis_on'], dict(rep, operator='grad (field on the basis, coarse geometry)'))
        self.judge(mech('grad-wrt-geometry'), relerr(vals['g_ch'], gp), 'function.grad of a coarse field w.r.t. a geometry on a basis of %s, evaluated on a finer level, differs from the formal derivative' % rep['basis_on'], dict(rep, operator='grad (coarse field, geometry on the basis)'))
        bt = fine.boundary
        nv, Jb, Jb0, X0b = bt.sample('gauss', 2).eval([function.normal(xh), function.J(xh), function.J(x0), x0])
        nu0, valid = self.face_normals(X0b, d)
        Jmb = jac_at(maps, X0b)
        raw = numpy.einsum('qji,qj->qi', numpy.linalg.inv(Jmb), nu0); nrm = numpy.linalg.norm(raw, axis=-1)
        self.judge(mech('normal-outward-orthogonal'), relerr(nv[valid], (raw / nrm[:, None])[valid]), 'the boundary normal of a geometry on a basis of %s evaluated on the boundary of a finer level differs from the outward unit normal' % rep['basis_on'], dict(rep, operator='normal'))
        self.judge(mech('jacobian-boundary'), relerr((Jb / Jb0)[valid], (abs(numpy.linalg.det(Jmb)) * nrm)[valid]), 'the boundary measure of a geometry on a basis of %s on the boundary of a finer level is wrong' % rep['basis_on'], dict(rep, operator='J (boundary)'))
        det = jacobian_det(maps)
        vol = sign * det.integrate_box()
        needed = d * (max(m.degree() for m in maps) - 1) + 1
        if needed <= 7 or not z.simplex:
            got = fine.integrate(function.J(xh), degree=self.gauss_degree(z, needed))
            self.judge(mech('integral-invariance'), relerr(got, float(vol)), 'the integral of J of a geometry on a basis of %s over a finer level differs from the exact volume' % rep['basis_on'], rep)
        if tail_bad and nbad_before == sum(self.bad.values()):
            # the node evaluates to the wrong linear map although no operator above showed it: correspondence broken, no failing operator input
            i, got_s, got_c, want, _ = tail_bad[0]
            self.c._deferred.append(('corr:transformlinear-tail', 'TransformLinear(target=%s, source=finer level, index=%d) evaluates to %s (simplified) / %s (compiled); the chain relative to the target has linear part %s' % (rep['basis_on'], i, got_s, got_c, want), rep))

    # ------------------------------------------------------------ refinement / parametrisation independence on identical physical points
    def reparam(self, kind):
        """the same physical field on two parametrisations of the unit square: x = Φ(x0) on `rect` and x = Φ(Ψ(y0)) with the
        geometry of the second mesh being y = Ψ^{-1}-image; evaluated at the same physical points through `locate`"""
        from nutils import function, mesh
        c, rng = self.c, self.rng
        d = 2
        maps, sign = random_map(rng, d, kind)
        zs = [z for z in self.zoo if z.d == d and z.spaces is None]
        z1, z2 = rng.sample(zs, 2)
        p = P.random(rng, d, 3)
        pts0 = numpy.array([[rng.randint(1, 15) / 16., rng.randint(1, 15) / 16.] for _ in range(6)])
        res = []
        for z in (z1, z2):
            v = rng.choice(self.variants(z))
            x = numpy.stack([m.nutils(v.x0) for m in maps])
            try:
                s = v.topo.locate(v.x0, pts0, tol=1e-12, eps=1e-10)
            except Exception as e:
                c.count('reparam-locate-unavailable:' + type(e).__name__); return
            res.append(s.eval(function.grad(p.nutils(x), x)))
        X = numpy.stack([m(pts0) for m in maps], -1)
        gp = numpy.stack([p.deriv(i)(X) for i in range(d)], -1)
        c.case(('reparam', z1.name, z2.name, repr(maps), repr(p)), nontrivial=True); c.count('reparam:' + kind)
        rep = dict(topologies=[z1.name, z2.name], geometry=[repr(m) for m in maps], field=repr(p), points=pts0.tolist())
        self.judge('parametrisation-independence', relerr(res[0], res[1]), 'the gradient at the same physical points differs between two meshes of the same domain', rep)
        self.judge('grad-wrt-geometry', relerr(res[0], gp), 'function.grad at located points differs from the formal derivative', rep)
