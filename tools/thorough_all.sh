#!/bin/bash
# run the thorough tier of the given properties, 5 at a time
cd "$(dirname "$0")/.."
run() { p=$1; t0=$(date +%s); ./check $p --tier thorough --seed ${SEED:-0} > /var/tmp/thorough-$p.log 2>&1; rc=$?; echo "$p rc=$rc $(( $(date +%s)-t0 ))s viol=$(grep -c '^VIOLATION' /var/tmp/thorough-$p.log) :: $(tail -1 /var/tmp/thorough-$p.log | cut -c1-140)"; }
for batch in "C15 C14 C20 C11 C03" "C17 C19 C06 C12 C07" "C09 C13 C04 C05 C08" "C10 C02 C18 C16 C01"; do
  for p in $batch; do run $p & done; wait
done
