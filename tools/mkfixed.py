#!/usr/bin/env python3
"""Regenerates the `fixed` list of known_findings.json from the fix: commits present in /repo and tools/fixed_table.json."""
import json, subprocess, os
here = os.path.dirname(os.path.dirname(os.path.abspath(__file__)))
tab = json.load(open(os.path.join(here, 'tools', 'fixed_table.json')))
log = subprocess.run(['git', '-C', '/repo', 'log', '--format=%h %s', '--reverse'], stdout=subprocess.PIPE, text=True).stdout.splitlines()
fixed = []
for line in log:
    h, s = line.split(' ', 1)
    if s.startswith('fix:'):
        if s not in tab:
            raise SystemExit('fix commit without table entry: ' + s)
        prop, what = tab[s]
        fixed.append('fixed: property=%s %s %s' % (prop, h, what))
p = os.path.join(here, 'known_findings.json')
d = json.load(open(p)); d['fixed'] = fixed
json.dump(d, open(p, 'w'), indent=1)
print(len(fixed), 'fixed entries')
