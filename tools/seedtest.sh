#!/bin/bash
# tools/seedtest.sh <seeded-id> [tier] [--in-repo]
# Applies seeded/<id>/patch.diff to a scratch copy of /repo (default; safe to run in parallel) or to /repo itself
# (--in-repo: git apply, run, git checkout), runs the property's check, reports caught|MISSED.
set -u
cd "$(dirname "$0")/.."
id="$1"; tier="${2:-quick}"; mode="${3:-copy}"
prop=$(python3 -c "import json;print(json.load(open('seeded/$id/meta.json'))['property'])")
log="/var/tmp/seedtest-$id.log"
if [ "$mode" = "--in-repo" ]; then
  if ! git -C /repo diff --quiet; then echo "/repo has uncommitted changes; refusing"; exit 2; fi
  git -C /repo apply "seeded/$id/patch.diff" || { echo "$id patch does not apply"; exit 2; }
  ./check "$prop" --tier "$tier" > "$log" 2>&1; rc=$?
  git -C /repo checkout -- .
else
  d="/var/tmp/seed-$id-$$"; rm -rf "$d"; mkdir -p "$d"
  git -C /repo archive HEAD src | tar -x -C "$d"
  (cd "$d" && patch -p1 -s < "$OLDPWD/seeded/$id/patch.diff") || { echo "$id patch does not apply"; rm -rf "$d"; exit 2; }
  NUTILS_SRC="$d/src" ./check "$prop" --tier "$tier" > "$log" 2>&1; rc=$?
  rm -rf "$d"
fi
if [ $rc -eq 1 ] && grep -q "^VIOLATION property=$prop" "$log"; then echo "$id $prop exit=$rc caught: $(grep '^VIOLATION' $log | head -2 | tr '\n' ' ')"; else echo "$id $prop exit=$rc MISSED"; fi
