#!/venv/bin/python
"""Run the repository's pinned test suite (guard OFF) and compare with /root/.vp/BASELINE.json stable_pass.
usage: tools/baseline.py [repo_dir] [-n workers]   exit 0 iff every stable_pass test passed."""
import sys, os, json, subprocess, tempfile, xml.etree.ElementTree as ET
repo = sys.argv[1] if len(sys.argv) > 1 and not sys.argv[1].startswith('-') else '/repo'
n = sys.argv[sys.argv.index('-n') + 1] if '-n' in sys.argv else '12'
base = json.load(open('/root/.vp/BASELINE.json'))
out = tempfile.mktemp(suffix='.xml', dir='/var/tmp')
env = dict(os.environ); env.pop('EVALF_NUTILS_VERIF', None); env['PYTHONPATH'] = os.path.join(repo, 'src')
for k in ('OMP_NUM_THREADS', 'OPENBLAS_NUM_THREADS', 'MKL_NUM_THREADS'): env.setdefault(k, '1')  # one BLAS thread per xdist worker
cmd = ['/venv/bin/python', '-m', 'pytest', '-q', '-p', 'no:cacheprovider', '--timeout=900', '--continue-on-collection-errors', '--junitxml=' + out]
if n != '0': cmd += ['-n', n]
p = subprocess.run(cmd, cwd=repo, env=env, stdout=subprocess.PIPE, stderr=subprocess.STDOUT, text=True)
print(p.stdout[-600:])
passed = set()
for tc in ET.parse(out).getroot().iter('testcase'):
    if not any(c.tag in ('failure', 'error', 'skipped') for c in tc):
        passed.add(tc.get('classname') + '::' + tc.get('name'))
os.remove(out)
missing = sorted(set(base['stable_pass']) - passed)
for _attempt in range(3):
  if missing and len(missing) < 200:
      # tests that are timing/load sensitive under xdist: rerun their files serially and merge
      files = sorted({'tests/' + m.split('.')[1] + '.py' for m in missing})
      print('rerunning serially:', files)
      p = subprocess.run(cmd[:cmd.index('--junitxml=' + out)] + ['--junitxml=' + out] + files, cwd=repo, env=env, stdout=subprocess.PIPE, stderr=subprocess.STDOUT, text=True)
      print(p.stdout[-300:])
      for tc in ET.parse(out).getroot().iter('testcase'):
          if not any(c.tag in ('failure', 'error', 'skipped') for c in tc):
              passed.add(tc.get('classname') + '::' + tc.get('name'))
      os.remove(out)
      missing = sorted(set(base['stable_pass']) - passed)
print('stable_pass %d, passed now %d, missing %d' % (len(base['stable_pass']), len(passed), len(missing)))
for m in missing[:40]: print('  MISSING', m)
sys.exit(1 if missing else 0)
