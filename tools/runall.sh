#!/bin/bash
# tools/runall.sh [tier] [seed] — run every registered check once on the current /repo, report exit code and wall time
cd "$(dirname "$0")/.."
tier="${1:-quick}"; seed="${2:-0}"
for p in ${PROPS:-C01 C02 C03 C04 C05 C06 C07 C08 C09 C10 C11 C12 C13 C14 C15 C16 C17 C18 C19 C20}; do
  t0=$(date +%s)
  ./check $p --tier $tier --seed $seed > /var/tmp/runall-$p.log 2>&1; rc=$?
  t1=$(date +%s)
  echo "$p rc=$rc $((t1-t0))s viol=$(grep -c '^VIOLATION' /var/tmp/runall-$p.log) known=$(grep -c '^KNOWN-FINDING' /var/tmp/runall-$p.log) :: $(tail -1 /var/tmp/runall-$p.log | cut -c1-150)"
done
