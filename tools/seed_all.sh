#!/bin/bash
# tools/seed_all.sh [tier] [ids...] — run the owning property's check against every seeded mutation (scratch copy mode), write seeded/RESULTS.md
cd "$(dirname "$0")/.."
tier="${1:-quick}"; shift
ids="$@"; [ -z "$ids" ] && ids=$(ls seeded | grep -v RESULTS)
for id in $ids; do
  [ -f seeded/$id/meta.json ] || continue
  r=$(tools/seedtest.sh $id $tier)
  echo "$r"
  python3 - "$id" "$tier" "$r" <<'PY'
import json, sys
id, tier, r = sys.argv[1:4]
p = 'seeded/%s/meta.json' % id
m = json.load(open(p))
m.setdefault('check_results', {})[tier] = r
json.dump(m, open(p, 'w'), indent=1)
PY
done
python3 - <<'PY'
import json, os
rows = []
for id in sorted(os.listdir('seeded')):
    p = 'seeded/%s/meta.json' % id
    if not os.path.exists(p): continue
    m = json.load(open(p))
    first = (m.get('needs_to_manifest') or '').strip().splitlines()[0][:110] if m.get('needs_to_manifest') else ''
    res = m.get('check_results', {})
    def short(r):
        if not r: return '-'
        return 'caught' if ' caught' in r else ('MISSED' if 'MISSED' in r else r[:30])
    rows.append('| %s | %s | %s | %s | %s |' % (id, m['property'], first.replace('|', '/'), short(res.get('quick')), short(res.get('thorough'))))
open('seeded/RESULTS.md', 'w').write('# Seeded mutations (written by fresh sub-agents from the property text only) vs the checks\n\n'
    '| id | property | mutation | quick tier | thorough tier |\n|---|---|---|---|---|\n' + '\n'.join(rows) + '\n')
PY
