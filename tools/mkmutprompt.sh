#!/bin/bash
# tools/mkmutprompt.sh <Cxx> [n]  — creates a scratch worktree /var/tmp/mut-<Cxx> of /repo HEAD and the instruction
# file /var/tmp/mutprompt-<Cxx>.txt for a fresh sub-agent that is given ONLY the property text (nothing from /verif).
set -e
pid="$1"; n="${2:-3}"
cd "$(dirname "$0")/.."
git -C /repo worktree add --detach /var/tmp/mut-$pid HEAD >/dev/null 2>&1 || true
mkdir -p /var/tmp/mutout-$pid
python3 - "$pid" "$n" <<'PY'
import json, sys
pid, n = sys.argv[1], int(sys.argv[2])
p = {json.loads(l)['id']: json.loads(l) for l in open('properties.jsonl')}[pid]
wt = '/var/tmp/mut-%s' % pid; out = '/var/tmp/mutout-%s' % pid
t = open('tools/mutprompt.tmpl').read()
open('/var/tmp/mutprompt-%s.txt' % pid, 'w').write(t.format(wt=wt, out=out, pid=pid, title=p['title'], statement=p['statement'], quant=p['quantifier']['text'], why=p['why_tests_cant'], n=n))
print('/var/tmp/mutprompt-%s.txt' % pid)
PY
