#!/usr/bin/env python3
"""Regenerates /verif/MANIFEST.json from tools/registry.json (one record per property) and validates it."""
import json, os, sys
here = os.path.dirname(os.path.dirname(os.path.abspath(__file__)))
reg = json.load(open(os.path.join(here, 'tools', 'registry.json')))
props = [json.loads(l)['id'] for l in open(os.path.join(here, 'properties.jsonl'))]
checks, na = [], []
for pid in props:
    r = reg.get(pid)
    if not r or not r.get('claimed'):
        na.append(dict(property_id=pid, reason=(r or {}).get('reason', 'check not built yet in this round; nothing is claimed for it')))
        continue
    checks.append(dict(
        property_id=pid,
        quick_cmd='./check %s --tier quick' % pid,
        thorough_cmd='./check %s --tier thorough' % pid,
        evidence_file='evidence/%s.json' % pid,
        replay_cmd_template='./check %s --replay {path}' % pid,
        engine='lean4+correspondence',
        level_claimed=dict(category=r.get('category', 'proof'), text=r['text'], design_ref=r.get('design_ref', 'DESIGN.md section 3, ' + pid)),
        level_note=r['note'],
        technique=r['technique']))
m = dict(
    version=1,
    setup_cmd='./setup.sh',
    hooks=dict(guard='EVALF_NUTILS_VERIF', enable='checks export EVALF_NUTILS_VERIF=1 and import nutils from /repo/src (pure Python, nothing to build); no hook commits exist: everything is reached from the harness process',
               baseline_off_cmd='cd /repo && env -u EVALF_NUTILS_VERIF /venv/bin/python -m pytest -ra -q -p no:cacheprovider --timeout=900 --continue-on-collection-errors',
               source_commits=[], add_only=True),
    engines=[dict(name='lean4+correspondence', path='lean/ (Lake project NutilsVerif) + harness/nvh', serves_properties=[c['property_id'] for c in checks],
                  kind_free_text='Lean 4 theorems about executable models; models tied to /repo on every run by regenerated tables (X), line-protocol correspondence (M) and Lean-checked validation of real outputs (V)')],
    checks=checks,
    notes=reg.get('_notes', ''),
    not_applicable=na)
json.dump(m, open(os.path.join(here, 'MANIFEST.json'), 'w'), indent=1)
try:
    import jsonschema
    jsonschema.validate(m, json.load(open('/root/.vp/MANIFEST.schema.json')))
    print('MANIFEST.json valid: %d checks, %d not_applicable' % (len(checks), len(na)))
except ImportError:
    print('written (jsonschema not available here to validate)')
