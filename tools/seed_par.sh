#!/bin/bash
# tools/seed_par.sh <tier> <prop> [<prop> ...] — per property sequential seedtests, properties in parallel
cd "$(dirname "$0")/.."
tier="$1"; shift
for p in "$@"; do
  ( for id in $(ls seeded | grep "^$p-m"); do tools/seed_all.sh $tier $id | grep -v "^$" | head -1; done > /var/tmp/seedpar-$p-$tier.log 2>&1 ) &
done
wait
cat /var/tmp/seedpar-*-$tier.log
