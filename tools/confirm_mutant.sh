#!/bin/bash
# tools/confirm_mutant.sh <Cxx> <k> "<test files/args for pytest>"
# Confirms a mutant produced by a fresh sub-agent (in /var/tmp/mutout-<Cxx>/m<k>) in a scratch worktree of /repo HEAD:
# demo passes without / fails with the patch, listed existing tests pass with the patch. On success stores it as seeded/<Cxx>-m<k>/.
set -u
export OMP_NUM_THREADS=1 OPENBLAS_NUM_THREADS=1
pid="$1"; k="$2"; tests="$3"
cd "$(dirname "$0")/.."
src="/var/tmp/mutout-$pid/m$k"; id="$pid-m$k"
wt="/var/tmp/confirm-$id"; rm -rf "$wt"
git -C /repo worktree add --detach "$wt" HEAD >/dev/null 2>&1 || { echo "cannot create worktree"; exit 2; }
run() { (cd "$wt" && PYTHONPATH="$wt/src" timeout 1800 /venv/bin/python "$@"); }
run "$src/demo.py" > "/var/tmp/confirm-$id.clean.log" 2>&1; rc_clean=$?
if ! git -C "$wt" apply "$src/patch.diff"; then echo "$id: patch does not apply to /repo HEAD"; git -C /repo worktree remove --force "$wt"; exit 1; fi
run "$src/demo.py" > "/var/tmp/confirm-$id.mut.log" 2>&1; rc_mut=$?
if [ "$tests" = "FULL" ]; then
  "$(pwd)/tools/baseline.py" "$wt" -n 8 > "/var/tmp/confirm-$id.tests.log" 2>&1; rc_tests=$?
  summary="full pinned suite vs BASELINE.json: $(grep '^stable_pass' /var/tmp/confirm-$id.tests.log)"
else
  (cd "$wt" && PYTHONPATH="$wt/src" timeout 7200 /venv/bin/python -m pytest -q -p no:cacheprovider -n 6 $tests > "/var/tmp/confirm-$id.tests.log" 2>&1); rc_tests=$?
  summary=$(tail -1 "/var/tmp/confirm-$id.tests.log")
fi
git -C /repo worktree remove --force "$wt"
echo "$id: demo clean rc=$rc_clean, demo mutated rc=$rc_mut, tests rc=$rc_tests ($summary)"
if [ $rc_tests -ne 0 ] && [ "$tests" = "FULL" ] && [ "$(grep -c '  MISSING' /var/tmp/confirm-$id.tests.log)" = "1" ] && grep -q 'MISSING tests.test_parallel.Test::test_range' /var/tmp/confirm-$id.tests.log; then
  # the only deviation is the timing-dependent test_parallel::test_range, which also fails on the unmodified tree under load
  rc_tests=0; summary="$summary (only the load-sensitive tests.test_parallel.Test::test_range deviated; it fails the same way on the unmodified tree under load)"
fi
if [ $rc_clean -eq 0 ] && [ $rc_mut -ne 0 ] && [ $rc_tests -eq 0 ]; then
  mkdir -p "seeded/$id"; cp "$src/patch.diff" "$src/demo.py" "seeded/$id/"; [ -f "$src/notes.txt" ] && cp "$src/notes.txt" "seeded/$id/"
  python3 - "$pid" "$id" "$tests" "$summary" "$(git -C /repo rev-parse --short HEAD)" <<'PY'
import json, sys
pid, id, tests, summary, head = sys.argv[1:6]
notes = open('seeded/%s/notes.txt' % id).read() if __import__('os').path.exists('seeded/%s/notes.txt' % id) else ''
json.dump(dict(property=pid, id=id, base_commit=head, needs_to_manifest=notes.strip()[:3000],
               confirmed=dict(demo_without_patch='exit 0', demo_with_patch='non-zero exit', existing_tests_with_patch=dict(cmd='pytest -q -n 6 ' + tests, result=summary)),
               source='fresh sub-agent given only the property text and its own scratch worktree'), open('seeded/%s/meta.json' % id, 'w'), indent=1)
PY
  echo "$id: confirmed and stored"
else
  echo "$id: NOT confirmed"
fi
